"""C01 - experimental variogram = estimator over exactly the pairs of each lag class.

Correspondence: the implementation's own distance vector, edges and differences (as exact
rationals) go through the Lean model (`groups`, `binCount`, `experimental`); discrete results are
compared exactly, semivariances to 1e-9.  Oracles: brute-force pair enumeration in the model's
`pairs` order for alignment, brute-force class counts for "exactly those pairs".
"""
import math
import numpy as np

from .common import (fr, frs, parse_ints, parse_nums, parse_floatbits, all_close, close, quiet)
from .common import guarded
from . import vario

INFO = dict(
    rule='seeded structured variogram configurations (1-3-D coordinates: uniform, clustered, integer '
         'lattice, duplicates, two clusters; all binning methods incl. custom edges on occurring '
         'distances; 4 estimators; dense / sparse / MetricSpace storage; 3 metrics). distinct = '
         'distinct (group vector, estimator); non-trivial = at least 2 non-empty classes',
    trusted=['scipy pdist / cKDTree contents are taken from the implementation (C20 checks them)'],
    assumptions=['float rounding inside estimators covered by 1e-9 relative tolerance only'],
)


def observe(V):
    with quiet():
        edges = np.asarray(V.bins, dtype=float)
        d = np.asarray(V.distance, dtype=float)
        groups = np.asarray(V.lag_groups())
        counts = np.asarray(V.bin_count)
        exp = np.asarray(V.experimental, dtype=float)
        diffs = np.asarray(V.pairwise_diffs, dtype=float)
    return edges, d, groups, counts, exp, diffs


@guarded
def check_case(ctx, case, V=None):
    try:
        if V is None:
            V = vario.build(case)
        edges, d, groups, counts, exp, diffs = observe(V)
    except (ValueError, AttributeError, RuntimeError) as e:
        ctx.reject(type(e).__name__ + ':' + str(e)[:40])
        return
    est = case['kw']['estimator']
    sparse = vario.is_sparse(V)
    ctx.count('storage:' + ('sparse' if sparse else case.get('storage', 'raw')))
    ctx.count('est:' + est)
    bname = case['kw']['bin_func'] if isinstance(case['kw']['bin_func'], str) else 'custom'
    ctx.count('bin:' + bname)
    ctx.count('coords:' + case['kind'])
    if len(edges) and np.any(np.isin(d, edges)):
        ctx.count('edge_hit')
    if not (np.all(np.isfinite(edges)) and np.all(np.diff(np.concatenate(([0.0], edges))) >= 0)):
        ctx.reject('edges-not-monotone')   # C02's business
        return
    if len(d) != len(diffs) or len(d) != len(groups):
        ctx.violation('alignment-length', 'len(distance)=%d len(diffs)=%d len(groups)=%d' % (
            len(d), len(diffs), len(groups)), case)
        return
    nonempty = int(np.sum(counts > 0))
    sig = (tuple(groups.tolist()), est) if nonempty >= 2 else None
    ctx.case(signature=sig, stream='groups+experimental',
             sample=dict(n=len(case['values']), kw=case['kw'], edges=edges.tolist()[:6],
                         counts=counts.tolist()))

    # ---- Lean: groups and counts (exact) -------------------------------------------------
    def cb_groups(f, case=case, groups=groups, counts=counts):
        mg, mc = parse_ints(f[0]) if f[0] else [], parse_ints(f[1]) if f[1] else []
        if mg != groups.tolist():
            k = next(i for i, (a, b) in enumerate(zip(mg, groups.tolist())) if a != b)
            ctx.violation('groups', 'pair %d (d=%r): implementation class %d, model %d; edges=%r' % (
                k, d[k], groups[k], mg[k], edges.tolist()), case)
        elif mc != counts.tolist():
            ctx.violation('bin_count', 'implementation %r, model %r' % (counts.tolist(), mc), case)
    ctx.lean.ask(['c01', 'groups', frs(edges), frs(d)], cb_groups)

    # ---- Lean: experimental ------------------------------------------------------------------
    if est == 'cressie':
        def cb_exp(f, case=case, exp=exp):
            m = parse_floatbits(f[0]) if f[0] else []
            if not all_close(m, exp.tolist(), rel=1e-9):
                ctx.violation('experimental', 'estimator cressie: implementation %r, model %r' % (
                    exp.tolist(), m), case)
        ctx.lean.ask(['c01', 'expcressie', frs(edges), frs(d), frs(diffs)], cb_exp)
    else:
        big = est == 'genton' and counts.max(initial=0) > 45
        if big:
            ctx.count('genton_class_too_big_for_exact_model')
        else:
            def cb_exp(f, case=case, exp=exp, est=est):
                m = parse_nums(f[0]) if f[0] else []
                if not all_close(m, exp.tolist(), rel=1e-9):
                    ctx.violation('experimental', 'estimator %s: implementation %r, model %r' % (
                        est, exp.tolist(), [None if x is None else float(x) for x in m]), case)
            ctx.lean.ask(['c01', 'exp', est, frs(edges), frs(d), frs(diffs)], cb_exp)

    # ---- the whole pipeline through the end-to-end model (`variogramE2E`): maxlag resolution, clipping, edge
    #      construction, grouping, counting and the estimator composed inside Lean, from the implementation's
    #      dense distance vector and the observed values alone
    kw = case['kw']
    if not sparse and kw['bin_func'] in ('even', 'uniform') and est != 'cressie' and case.get('dtype', 'float64') == 'float64' \
            and not (est == 'genton' and counts.max(initial=0) > 45):
        req = kw['maxlag']
        reqtok = 'none' if req is None else (req if isinstance(req, str) else fr(req))
        with quiet():
            ml_impl = V.maxlag
        vals_f = np.array(case['values'], dtype=float)

        def cb_e2e(f, case=case, edges=edges, groups=groups, counts=counts, exp=exp, d=d, ml_impl=ml_impl):
            ctx.count('pipeline_e2e')
            mml = parse_nums(f[0])[0]
            medges = parse_nums(f[1]) if f[1] else []
            if not close(mml, ml_impl, rel=1e-12):
                ctx.violation('e2e-maxlag', 'maxlag=%r resolves to %r, end-to-end model %r' % (
                    case['kw']['maxlag'], ml_impl, None if mml is None else float(mml)), case)
                return
            from fractions import Fraction
            if mml is not None and ml_impl is not None and Fraction(float(ml_impl)) != mml and \
                    np.any(np.abs(d - float(ml_impl)) <= 1e-9 * max(1.0, abs(float(ml_impl)))):
                # the model resolves a relative maxlag in exact arithmetic (0.3 * 10 < 3), the implementation in
                # floats (0.3 * 10.0 == 3.0): with a distance at that value the clipped sets differ by rounding only
                ctx.count('pipeline_e2e_skipped_maxlag_rounding')
                return
            if not all_close(medges, edges.tolist(), rel=1e-9):
                ctx.violation('e2e-edges', 'lag edges %r, end-to-end model %r' % (
                    edges.tolist(), [float(x) for x in medges]), case)
                return
            # grouping is compared only when no distance lies within rounding distance of an edge (the model builds
            # the edges in exact arithmetic) or the edges coincide exactly
            me = np.array([float(x) for x in medges])
            near = np.min(np.abs(d[:, None] - me[None, :]) / np.maximum(1.0, np.abs(me[None, :]))) if len(me) else 1.0
            from fractions import Fraction
            same = len(medges) == len(edges) and all(Fraction(float(e)) == m for e, m in zip(edges.tolist(), medges))
            if not (near > 1e-9 or same):
                ctx.count('pipeline_e2e_skipped_edge_rounding')
                return
            mg = parse_ints(f[2]) if f[2] else []
            mc = parse_ints(f[3]) if f[3] else []
            mx = parse_nums(f[4]) if f[4] else []
            if mg != groups.tolist() or mc != counts.tolist():
                ctx.violation('e2e-groups', 'lag classes / counts differ from the end-to-end model: counts %r vs %r' % (
                    counts.tolist(), mc), case)
            elif not all_close(mx, exp.tolist(), rel=1e-9):
                ctx.violation('e2e-experimental', 'experimental %r, end-to-end model %r' % (
                    exp.tolist(), [None if x is None else float(x) for x in mx]), case)
        ctx.lean.ask(['c01', 'pipeline', est, kw['bin_func'], str(int(kw['n_lags'])), reqtok, frs(d), frs(vals_f)], cb_e2e)

    # ---- alignment and "exactly those pairs" ----------------------------------------------
    coords = np.array(case['coords'], dtype=float)
    vals = np.array(case['values'], dtype=float)
    metric = case['kw']['dist_func']
    n = len(vals)
    bd = vario.brute_dists(coords, metric)
    bp = vario.brute_pairs(n)
    if not sparse:
        # dense: k-th distance / difference belong to the k-th pair of the model's `pairs n`
        if len(d) != len(bp):
            ctx.violation('alignment-length', 'dense distance vector has %d entries for %d pairs' % (
                len(d), len(bp)), case)
            return
        if not all_close(d, bd, rel=1e-12):
            ctx.violation('alignment-distance', 'k-th distance is not the distance of the k-th pair', case)
        want = np.array([abs(vals[i] - vals[j]) for i, j in bp])
        if not all_close(diffs, want, rel=1e-12, abs_=1e-300):
            ctx.violation('alignment-diff', 'k-th difference is not |v_i - v_j| of the k-th pair', case)

        def cb_pairs(f, n=n, bp=bp):
            mp = [tuple(int(x) for x in t.split(',')) for t in f[0].split()] if f[0] else []
            if mp != bp:
                raise AssertionError('harness pair order differs from the Lean model')
        if n <= 12:
            ctx.lean.ask(['c01', 'pairs', str(n)], cb_pairs)
        if metric == 'euclidean' and n <= 25:
            def cb_sq(f, d=d, case=case):
                sq = parse_nums(f[0]) if f[0] else []
                if not all_close([x * x for x in d.tolist()], sq, rel=1e-12):
                    ctx.violation('alignment-distance', 'squared distances differ from the exact model', case)
            ctx.lean.ask(['c01', 'sqdists', str(coords.shape[1]), frs(coords.flatten())], cb_sq)
    else:
        tri = V.triangular_distance_matrix.tocsr()
        rows = np.repeat(np.arange(tri.shape[0]), np.diff(tri.indptr))
        cols = tri.indices
        ctx.count('sparse_entries', len(cols))
        idx = {p: k for k, p in enumerate(bp)}
        ok = True
        for k, (i, j) in enumerate(zip(rows.tolist(), cols.tolist())):
            a, b = (i, j) if i < j else (j, i)
            if a == b or (a, b) not in idx:
                ctx.violation('sparse-entry', 'entry %d is not a pair of distinct points' % k, case)
                ok = False
                break
            if not close(d[k], bd[idx[(a, b)]], rel=1e-12):
                ctx.violation('alignment-distance', 'sparse entry %d: stored %r, pair (%d,%d) is %r apart'
                              % (k, d[k], a, b, bd[idx[(a, b)]]), case)
                ok = False
                break
            if not close(diffs[k], abs(vals[a] - vals[b]), rel=1e-12, abs_=1e-300):
                ctx.violation('alignment-diff', 'sparse entry %d: difference %r is not |v_%d - v_%d|'
                              % (k, diffs[k], a, b), case)
                ok = False
                break
        if ok and len(set(zip(rows.tolist(), cols.tolist()))) != len(cols):
            ctx.violation('sparse-entry', 'a pair is stored twice', case)
        if ok:
            # every pair within the truncation distance must be stored (exactly those pairs)
            md = V.metric_space.max_dist
            stored = {(min(i, j), max(i, j)) for i, j in zip(rows.tolist(), cols.tolist())}
            missing = [p for p, x in zip(bp, bd.tolist()) if x <= md * (1 - 1e-12) and p not in stored]
            extra = [p for p in stored if bd[idx[p]] > md * (1 + 1e-12)]
            if missing or extra:
                zero_only = bool(missing) and not extra and all(bd[idx[p]] == 0 for p in missing)
                ctx.violation('sparse-pairs', '%d pairs within max_dist=%r are not stored (e.g. %r at '
                              'distance %r), %d stored beyond it' % (
                                  len(missing), md, missing[:1], [bd[idx[p]] for p in missing[:1]],
                                  len(extra)), case,
                              signature=dict(kind='sparse-pairs', zero_distance_only=zero_only))
            ctx.count('sparse_pairset_checked')

    # brute-force class counts: every pair closer than the last edge in exactly one class
    if len(edges):
        lo = np.concatenate(([0.0], edges[:-1]))
        near = np.min(np.abs(bd[:, None] - edges[None, :]) / np.maximum(1.0, np.abs(edges[None, :])))
        exact = case['kind'] == 'lattice' or near > 1e-12
        if exact:
            want = [int(np.sum((bd >= l) & (bd < h))) for l, h in zip(lo, edges)]
            if want != counts.tolist():
                zero = int(np.sum(bd == 0))
                ctx.violation('class-membership', 'pairs per class by brute force %r, reported %r' % (
                    want, counts.tolist()), case,
                    signature=dict(kind='class-membership', storage='sparse' if sparse else 'dense',
                                   zero_pairs=zero > 0,
                                   only_zero_pairs_missing=bool(
                                       sparse and zero > 0 and want[0] - counts[0] == zero
                                       and want[1:] == counts.tolist()[1:])))
            ctx.count('bruteforce_count_checked')


@guarded
def check_after_maxlag(ctx, case):
    """the same statement for an instance whose maximum lag was re-assigned in place after everything had been
    computed once (the distance vector, its pairing with the differences and the classes must stay consistent)"""
    if not isinstance(case['kw']['bin_func'], str):
        return
    try:
        V = vario.build(case)
        observe(V)
        with quiet():
            V.maxlag = case['then_maxlag']
        edges = observe(V)[0]
    except (ValueError, AttributeError, RuntimeError) as e:
        ctx.reject('then-maxlag:' + type(e).__name__)
        return
    if len(edges) == 0 or not np.all(np.isfinite(edges)):
        return
    ctx.count('after_maxlag:' + str(case['then_maxlag']))
    check_case(ctx, dict(case, kw=dict(case['kw'], maxlag=case['then_maxlag']), after_maxlag=True), V=V)


def run(ctx):
    # warm-up of the JIT-compiled estimators happens on the first case
    ncase = ctx.n(130, 2000)
    for k in range(ncase):
        case = vario.gen_case(ctx.rng, nmax=38 if ctx.tier == 'quick' else 60)
        check_case(ctx, case)
        if k % 4 == 0:
            sparse_route = case['storage'] == 'raw' and str(case.get('maxlag_form', '')).startswith('abs')
            check_after_maxlag(ctx, dict(case, then_maxlag='median' if sparse_route and k % 8 == 0 else
                                         ['median', 'mean', 0.7, None][(k // 4) % 4]))
        if (k + 1) % 150 == 0:
            ctx.lean.flush()
    ctx.lean.flush()


def replay(ctx, body):
    if body['case'].get('after_maxlag'):
        check_after_maxlag(ctx, body['case'])
    else:
        check_case(ctx, body['case'])
    ctx.lean.flush()
