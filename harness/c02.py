"""C02 - lag edges are well-formed and honour n_lags and maxlag for every binning method."""
import math
import warnings
import numpy as np

from .common import fr, frs, parse_nums, all_close, close, quiet
from .common import guarded
from skgstat import Variogram
from . import vario

INFO = dict(
    rule='seeded variogram configurations x all binning methods x all maxlag forms x n_lags 1..12, '
         'plus direct calls of skgstat.binning.* on tie-heavy distance vectors; distinct = distinct '
         '(method, edge vector); non-trivial = at least 2 distinct edges',
    trusted=['scikit-learn KMeans / AgglomerativeClustering and numpy.histogram_bin_edges are '
             'contracts: the harness re-runs them with the same arguments and feeds the centres / '
             'edges to the model'],
    assumptions=['numpy linspace / percentile rounding covered by 1e-9 relative tolerance'],
)

RULES = ('sturges', 'scott', 'fd', 'sqrt', 'doane')


def spec_eff(req, dall):
    """effective maximum lag as the property states it (dall: all pair distances)"""
    dmax = float(np.max(dall))
    if req is None:
        return dmax
    if req == 'median':
        m = float(np.median(dall))
    elif req == 'mean':
        m = float(np.mean(dall))
    elif req < 1:
        m = req * dmax
    else:
        m = float(req)
    return min(m, dmax)


@guarded
def check_case(ctx, case):
    kw = case['kw']
    binf = kw['bin_func']
    bname = binf if isinstance(binf, str) else 'custom'
    try:
        V = vario.build(case)
        with quiet():
            edges = np.asarray(V.bins, dtype=float)
            nl = V.n_lags
            ml = V.maxlag
            d = np.asarray(V.distance, dtype=float)
    except ValueError as e:
        ctx.reject('ValueError:' + str(e)[:40])
        return
    except (AttributeError, RuntimeError, TypeError) as e:
        ctx.violation('crash', '%s: %s' % (type(e).__name__, e), case)
        return
    sparse = vario.is_sparse(V)
    dall = vario.brute_dists(np.array(case['coords']), kw['dist_func'])
    req = kw['maxlag'] if bname != 'custom' else None
    eff = spec_eff(req, dall) if bname != 'custom' else float(max(binf))
    within = dall[dall <= eff * (1 + 1e-12)]
    if len(np.unique(within)) < 2:
        ctx.reject('fewer-than-2-distinct-distances-within-maxlag')
        return
    ctx.count('bin:' + bname)
    ctx.count('maxlag:' + case['maxlag_form'])
    ctx.count('storage:' + ('sparse' if sparse else case['storage']))
    ties = len(dall) - len(np.unique(dall))
    if ties > len(dall) // 4:
        ctx.count('heavy_ties')
    sig = (bname, tuple(edges.tolist())) if len(np.unique(edges)) >= 2 else None
    ctx.case(signature=sig, stream='variogram-bins',
             sample=dict(bin_func=bname, n_lags=kw['n_lags'], maxlag=kw['maxlag'], edges=edges.tolist()[:5]))

    def viol(kind, detail, signature=None):
        ctx.violation(kind, detail, case, signature=signature)

    # -- generic well-formedness ---------------------------------------------------------
    if not np.all(np.isfinite(edges)):
        return viol('not-finite', 'edges %r' % edges.tolist())
    if np.any(np.diff(edges) < 0):
        return viol('decreasing', 'edges %r' % edges.tolist())
    if len(edges) != nl:
        return viol('n_lags', 'n_lags reports %r for %d edges' % (nl, len(edges)))
    if bname == 'custom':
        if edges.tolist() != [float(x) for x in binf]:
            viol('custom-not-verbatim', 'edges %r, supplied %r' % (edges.tolist(), binf))
        return
    if bname not in RULES and nl != kw['n_lags']:
        return viol('n_lags', '%s binning returned %d classes for n_lags=%d' % (bname, nl, kw['n_lags']))
    if edges.max() > eff * (1 + 1e-12):
        return viol('exceeds-maxlag', 'largest edge %r > effective maximum lag %r (maxlag=%r, largest '
                    'distance %r)' % (edges.max(), eff, kw['maxlag'], float(dall.max())))

    # -- the same instance binned again (the edges are computed lazily and n_lags is adopted from them): after
    #    assigning another maxlag the edges must again be as many as n_lags reports and within the new maximum
    if not sparse and case.get('rebin', 'skip') != 'skip':
        new = case['rebin']
        if new != kw['maxlag']:
            try:
                with quiet():
                    V.maxlag = new
                    e2 = np.asarray(V.bins, dtype=float)
                    nl2 = V.n_lags
            except ValueError as e:
                e2 = None
                ctx.reject('rebin-ValueError:' + str(e)[:40])
            except (AttributeError, RuntimeError, TypeError) as e:
                return viol('crash', 'after maxlag=%r: %s: %s' % (new, type(e).__name__, e))
            eff2 = spec_eff(new, dall)
            if e2 is not None and len(np.unique(dall[dall <= eff2 * (1 + 1e-12)])) >= 2:
                ctx.count('rebinned_in_place')
                if len(e2) != nl2:
                    return viol('n_lags-after-rebinning', 'after maxlag=%r on the same instance n_lags reports %r for '
                                '%d edges (%s)' % (new, nl2, len(e2), bname))
                if not np.all(np.isfinite(e2)) or np.any(np.diff(e2) < 0) or e2.max() > eff2 * (1 + 1e-12):
                    return viol('rebinning', 'after maxlag=%r on the same instance: edges %r, effective maximum lag %r'
                                % (new, e2.tolist(), eff2))
                if bname not in RULES and nl2 != kw['n_lags']:
                    return viol('n_lags-after-rebinning', '%s binning has %d classes for n_lags=%d after maxlag=%r'
                                % (bname, nl2, kw['n_lags'], new))

    # -- maxlag resolution through the model (on the implementation's own distance vector) ----
    reqtok = 'none' if req is None else (req if isinstance(req, str) else fr(req))

    def cb_res(f, ml=ml, d=d):
        m = parse_nums(f[0])[0]
        if not close(m, ml if ml is not None else None, rel=1e-12):
            viol('maxlag-resolution', 'maxlag=%r resolved to %r, model %r' % (kw['maxlag'], ml,
                                                                               None if m is None else float(m)))
    if not sparse:
        ctx.lean.ask(['c02', 'resolve', reqtok, frs(d)], cb_res)

    # -- method specific ---------------------------------------------------------------------
    dmax_stored = float(np.max(d))

    def sparse_sig(got, n):
        # D9: sparse storage clips against the largest *stored* distance
        defect = np.linspace(0, min(eff, dmax_stored) if req is not None else dmax_stored, n + 1)[1:]
        return dict(kind='sparse-last-edge', storage='sparse',
                    equals_defect_model=bool(sparse and all_close(got, defect, rel=1e-12)))

    if bname == 'even':
        def cb_even(f, edges=edges):
            m = parse_nums(f[0])
            if not all_close(m, edges.tolist(), rel=1e-12):
                viol('even', 'edges %r, model (n=%d equal classes ending at %r) %r' % (
                    edges.tolist(), nl, eff, [float(x) for x in m]), sparse_sig(edges.tolist(), nl))
        ctx.lean.ask(['c02', 'even', str(nl), fr(eff)], cb_even)
    elif bname == 'uniform':
        def cb_uni(f, edges=edges):
            m = parse_nums(f[0])
            if not all_close(m, edges.tolist(), rel=1e-9):
                viol('uniform', 'edges %r, model (i/n quantiles of the distances <= %r) %r' % (
                    edges.tolist(), eff, [float(x) for x in m]))
        # the quantiles are those of all distances within the effective maximum lag
        ctx.lean.ask(['c02', 'uniform', str(nl), fr(eff), frs(dall)], cb_uni)
    elif bname in RULES:
        ref = np.histogram_bin_edges(dall[dall <= eff], bins=bname)[1:]
        if not all_close(ref, edges.tolist(), rel=1e-12):
            viol('rule', '%s: edges %r, numpy rule on the distances within %r gives %r' % (
                bname, edges.tolist(), eff, ref.tolist()))
        else:
            sel = dall[dall <= eff]

            def cb_lin(f, edges=edges):
                m = parse_nums(f[0])
                if not all_close(m, edges.tolist(), rel=1e-9):
                    viol('rule-linspace', '%s: edges %r are not %d equal-width classes between the smallest and largest '
                         'selected distance: %r' % (bname, edges.tolist(), nl, [float(x) for x in m]))
            ctx.lean.ask(['c02', 'linspace', fr(float(sel.min())), fr(float(sel.max())), str(nl)], cb_lin)
    elif bname in ('kmeans', 'ward'):
        # the contract is re-run on what the implementation hands to the back-end: its own distance vector cut at
        # its own resolved maximum lag (a brute-force maximum may differ from the stored one in the last bit)
        lim = dmax_stored if ml is None else min(float(ml), dmax_stored)
        centers = cluster_centers(bname, d[d <= lim], nl)
        if centers is not None:
            def cb_mid(f, edges=edges, centers=centers, lim=lim):
                m = parse_nums(f[0])
                if not all_close(m, edges.tolist(), rel=1e-9):
                    # the clustering back-end is not bit-reproducible on tie-heavy data (multi-threaded sums):
                    # only a mismatch that persists over repeated runs of both sides is reported
                    dsel = d[d <= lim]
                    again = [cluster_centers(bname, dsel, nl) for _ in range(3)]
                    with quiet():
                        impl_again = [np.asarray(vario.build(case).bins, float).tolist() for _ in range(2)]
                    if any(c != centers for c in again) or any(not all_close(e, edges.tolist(), rel=0) for e in impl_again):
                        ctx.count('clustering_backend_not_reproducible')
                        return
                    viol('midpoints', '%s: edges %r are not the mid-points of [0]+centres %r' % (
                        bname, edges.tolist(), centers))
            ctx.lean.ask(['c02', 'midpoints', frs(centers)], cb_mid)


def cluster_centers(name, d, n):
    # contract: the back-end is applied to the *sorted* distances (order-free, D16/D17)
    d = np.sort(d)
    from sklearn.cluster import KMeans, AgglomerativeClustering
    with warnings.catch_warnings():
        warnings.simplefilter('ignore')
        try:
            if name == 'kmeans':
                km = KMeans(n_clusters=n, random_state=42, n_init=10).fit(d.reshape(-1, 1))
                return sorted(float(x) for x in km.cluster_centers_.flatten())
            w = AgglomerativeClustering(linkage='ward', n_clusters=n).fit(d.reshape(-1, 1))
            return sorted(float(np.mean(d[w.labels_ == i])) for i in np.unique(w.labels_))
        except Exception:
            return None


@guarded
def check_direct(ctx):
    """skgstat.binning.* called directly on tie-heavy vectors"""
    from skgstat import binning
    rng = ctx.rng
    kind = str(rng.choice(['ties', 'tiny', 'skewed']))
    if kind == 'ties':
        d = rng.integers(1, 8, size=int(rng.integers(6, 60))).astype(float)
    elif kind == 'tiny':
        d = rng.uniform(0.1, 10, size=int(rng.integers(3, 7)))
    else:
        d = rng.lognormal(0, 1.2, size=int(rng.integers(10, 80)))
    if len(np.unique(d)) < 2:
        return
    n = int(rng.integers(1, 10))
    form = str(rng.choice(['none', 'below', 'above']))
    maxlag = None if form == 'none' else float(d.max() * (0.6 if form == 'below' else 1.7))
    eff = float(d.max()) if maxlag is None else min(maxlag, float(d.max()))
    if len(np.unique(d[d <= eff])) < 2:
        return
    case = dict(direct=True, d=d.tolist(), n=n, maxlag=maxlag)
    for fname, tag in (('even_width_lags', 'even'), ('uniform_count_lags', 'uniform')):
        edges, ret_n = getattr(binning, fname)(d.copy(), n, maxlag)
        edges = np.asarray(edges, dtype=float)
        ctx.case(signature=(tag, 'direct', tuple(edges.tolist())) if len(np.unique(edges)) > 1 else None,
                 stream='binning-direct')
        ctx.count('direct:' + kind)
        if ret_n is not None or len(edges) != n or np.any(np.diff(edges) < 0) or edges.max() > eff * (1 + 1e-12):
            ctx.violation('direct-' + tag, 'edges %r for n=%d maxlag=%r' % (edges.tolist(), n, maxlag),
                          dict(case, func=fname))
            continue

        def cb(f, edges=edges, fname=fname):
            m = parse_nums(f[0])
            if not all_close(m, edges.tolist(), rel=1e-9):
                ctx.violation('direct-' + tag, '%s: %r, model %r' % (fname, edges.tolist(),
                                                                      [float(x) for x in m]),
                              dict(case, func=fname))
        if tag == 'even':
            ctx.lean.ask(['c02', 'even', str(n), fr(eff)], cb)
        else:
            ctx.lean.ask(['c02', 'uniform', str(n), fr(eff), frs(d)], cb)


@guarded
def check_sequence(ctx, case):
    """n_lags is honoured when the assigned number happens to be the one currently reported: (a) the class count
    a rule-based binning derived, assigned explicitly and followed by a switch to `even` / `uniform`; (b) own edges
    assigned through `bins`, followed by n_lags = their number (the named method with that many classes)"""
    coords = np.array(case['coords'], float)
    dall = vario.brute_dists(coords, case['kw']['dist_func'])
    if len(np.unique(dall)) < 3:
        return
    kw = dict(case['kw'], maxlag=None, fit_method=None)
    target = case['seq_target']
    try:
        if case['seq'] == 'a':
            with quiet():
                V = Variogram(coords, np.array(case['values'], float), **dict(kw, bin_func=case['seq_rule']))
                k = int(V.n_lags)
                V.n_lags = k
                V.bin_func = target
                edges, nl = np.asarray(V.bins, float), int(V.n_lags)
            want_n = k
        else:
            with quiet():
                V = Variogram(coords, np.array(case['values'], float), **dict(kw, bin_func=target, n_lags=4))
                own = np.linspace(0, float(dall.max()) * 0.83, 7)[1:]
                V.bins = own
                V.n_lags = 6
                edges, nl = np.asarray(V.bins, float), int(V.n_lags)
            want_n = 6
    except (ValueError, RuntimeError) as e:
        ctx.reject('sequence:' + type(e).__name__)
        return
    ctx.count('sequence:' + case['seq'])
    ctx.case(signature=('sequence', case['seq'], target, want_n), stream='sequences')
    eff = float(dall.max())
    if nl != want_n or len(edges) != want_n:
        ctx.violation('n_lags-not-honoured', 'sequence %s -> %s: n_lags=%d was assigned, the instance reports %d classes '
                      '(%d edges)' % (case['seq'], target, want_n, nl, len(edges)), case)
        return

    def cb(f, edges=edges):
        m = parse_nums(f[0])
        if not all_close(m, edges.tolist(), rel=1e-9):
            ctx.violation('n_lags-not-honoured', 'sequence %s -> %s with n_lags=%d: edges %r, the method gives %r' % (
                case['seq'], target, want_n, edges.tolist(), [float(x) for x in m]), case)
    if target == 'even':
        ctx.lean.ask(['c02', 'even', str(want_n), fr(eff)], cb)
    else:
        ctx.lean.ask(['c02', 'uniform', str(want_n), fr(eff), frs(dall)], cb)


def run(ctx):
    for k in range(ctx.n(30, 300)):
        case = vario.gen_case(ctx.rng, nmax=30, estimators=['matheron'], allow_custom=False, allow_sparse=False,
                              binnings=['even'])
        case.update(seq='ab'[k % 2], seq_target=['even', 'uniform'][(k // 2) % 2],
                    seq_rule=str(ctx.rng.choice(['sturges', 'scott', 'sqrt', 'fd', 'doane'])), storage='raw')
        check_sequence(ctx, case)
    for k in range(ctx.n(150, 3000)):
        case = vario.gen_case(ctx.rng, nmax=30 if ctx.tier == 'quick' else 50, estimators=['matheron'])
        case['rebin'] = [None, 0.5, 0.3, 'median', 'mean', 'skip', 'skip', 'skip'][int(ctx.rng.integers(0, 8))]
        check_case(ctx, case)
    for k in range(ctx.n(40, 400)):
        check_direct(ctx)
    ctx.lean.flush()


def replay(ctx, body):
    case = body['case']
    if case.get('direct'):
        raise SystemExit('direct binning replays are re-run through the seeded run')
    if case.get('seq'):
        check_sequence(ctx, case)
        ctx.lean.flush()
        return
    check_case(ctx, case)
    ctx.lean.flush()
