"""C03 - theoretical models are valid bounded, monotone variogram functions.

Streams: (1) translator validation - the generated Float twins of models.py run by the Lean
driver vs. the Python functions on seeded inputs; (2) numeric oracle of every clause on the real
functions incl. Matern (labelled a test: rounding is not modelled); (3) array call = map of
scalar calls; (4) '+'-joined sums: argument slices vs. the model, value = sum of components with
one shared nugget.
"""
import math
import numpy as np

from .common import floatbits, parse_floatbits, close, all_close, quiet, frs, parse_nums, ints
from .common import guarded
from skgstat import models, Variogram

INFO = dict(
    rule='seeded parameters over 9 decades (range, sill), nugget in {0, small, large}, shape/smoothness over '
         'their admissible intervals; lags: 0, log-spaced over 12 decades around r, r and its float '
         'neighbours, very large; distinct = distinct (model, parameter tuple); non-trivial = every one',
    trusted=['scipy.special.kv / gamma (Matern) are external; the Matern clauses are validated numerically only'],
    assumptions=['monotonicity / bounds on floats are checked with slack 1e-9*(b+c0) (rounding is not modelled)'],
)

SINGLE = ['spherical', 'exponential', 'gaussian', 'cubic', 'stable', 'matern']


def params(rng, name):
    r = 10 ** rng.uniform(-4, 5)
    c0 = 10 ** rng.uniform(-4, 5)
    b = float(rng.choice([0.0, 0.0, c0 * 1e-3, c0 * 0.5, c0 * 7]))
    if name == 'stable':
        return [r, c0, float(rng.choice([0.1, 0.5, 1.0, 1.5, 2.0, rng.uniform(0.05, 2)])), b]
    if name == 'matern':
        return [r, c0, float(rng.choice([0.3, 0.5, 1.0, 2.5, 8.0, rng.uniform(0.2, 15)])), b]
    return [r, c0, b]


def lags(rng, r):
    hs = [0.0]
    hs += list(r * 10 ** np.linspace(-6, 6, 37))
    hs += [np.nextafter(r, 0), r, np.nextafter(r, np.inf), r * (1 - 1e-9), r * (1 + 1e-9)]
    hs += list(r * rng.uniform(0, 2, size=10))
    return sorted(set(float(h) for h in hs))


@guarded
def check_model(ctx, name):
    rng = ctx.rng
    f = getattr(models, name)
    p = params(rng, name)
    r, c0, b = p[0], p[1], p[-1]
    hs = lags(rng, r)
    case = dict(model=name, params=p)
    with quiet():
        vals = [float(f(h, *p)) for h in hs]
    ctx.case(signature=(name, tuple(p)), stream='oracle', sample=dict(model=name, params=p))
    ctx.count('model:' + name)
    slack = 1e-9 * (abs(b) + c0)
    top = b + c0
    if vals[0] != b:
        ctx.violation('zero', '%s(0, %r) = %r, nugget %r' % (name, p, vals[0], b), case)
    for h1, v1, h2, v2 in zip(hs, vals, hs[1:], vals[1:]):
        if not (math.isfinite(v1) and math.isfinite(v2)):
            ctx.violation('not-finite', '%s(%r, %r) = %r' % (name, h1, p, v1), case)
            return
        if v2 < v1 - slack:
            ctx.violation('monotone', '%s: value drops from %r at h=%r to %r at h=%r (params %r)' % (
                name, v1, h1, v2, h2, p), case)
            return
    if min(vals) < b - slack or max(vals) > top + slack:
        ctx.violation('bounds', '%s: values leave [%r, %r]: min %r max %r (params %r)' % (
            name, b, top, min(vals), max(vals), p), case)
    with quiet():
        at_r = float(f(r, *p))
        beyond = [float(f(h, *p)) for h in (r * 1.0000001, r * 3, r * 1e6)]
        hfar = r * 1e9
        if name == 'stable':
            # (h/a)^s >= 40 needs h = r*(40/3)^(1/s): slowly for small shapes
            hfar = r * (40.0 / 3.0) ** (1.0 / p[2]) * 1.01
        far = float(f(hfar, *p)) if math.isfinite(hfar) else top
    frac = 0.9 if name == 'matern' else 0.95
    if at_r < b + frac * c0 - slack:
        ctx.violation('effective-range', '%s(r) = %r < nugget + %g*sill = %r (params %r)' % (
            name, at_r, frac, b + frac * c0, p), case)
    if name in ('spherical', 'cubic'):
        if not close(at_r, top, rel=1e-12) or any(not close(v, top, rel=1e-12) for v in beyond):
            ctx.violation('effective-range', '%s is not exactly the sill at/beyond r: %r, %r vs %r' % (
                name, at_r, beyond, top), case)
    if not close(far, top, rel=1e-9):
        ctx.violation('limit', '%s(%r) = %r, nugget+sill = %r' % (name, hfar, far, top), case)
    # nugget additivity (basis of the sum-of-models clause)
    p0 = p[:-1] + [0.0]
    with quiet():
        for h in hs[::7]:
            if not close(float(f(h, *p)), float(f(h, *p0)) + b, rel=1e-12, abs_=1e-12 * top):
                ctx.violation('nugget-additive', '%s(h=%r): with nugget %r, without %r + %r' % (
                    name, h, f(h, *p), f(h, *p0), b), case)
                break
    # array call = element by element
    with quiet():
        arr = np.asarray(f(np.array(hs), *p), dtype=float)
        lst = np.asarray(f(list(hs), *p), dtype=float)
    if not all_close(arr.tolist(), vals, rel=1e-13) or not all_close(lst.tolist(), vals, rel=1e-13):
        ctx.violation('array', '%s: array call differs from scalar calls' % name, case)
    # integer-typed parameters (Python ints are admissible): array call = element by element
    ip = [max(1, int(round(r))), max(1, int(round(min(c0, 1e6))))] + ([p[2]] if len(p) == 4 else []) + [int(ctx.rng.choice([0, 1, 2]))]
    ih = [0.0] + [float(x) for x in np.linspace(0, 2.0 * ip[0], 7)[1:]]
    with quiet():
        want = [float(f(h, *ip)) for h in ih]
        got = np.asarray(f(np.array(ih), *ip), dtype=float).tolist()
        got_l = np.asarray(f(list(ih), *ip), dtype=float).tolist()
    ctx.count('int_typed_params')
    if not all_close(got, want, rel=1e-13) or not all_close(got_l, want, rel=1e-13):
        ctx.violation('array', '%s with integer-typed parameters %r: array call %r, element by element %r' % (
            name, ip, got, want), dict(case, int_params=ip))
    # integer-typed lags (np.arange(...) distances, raster units, Python ints): same value as the float lag
    rmax = int(min(max(2.0, 2.0 * r), 60000))
    ints = sorted(set([0, 1, 2, rmax // 3, rmax // 2, rmax - 1, rmax] + [int(x) for x in rng.integers(0, rmax + 1, size=4)]))
    with quiet():
        ref = [float(f(float(k), *p)) for k in ints]
        for dt in ('pyint', 'int64', 'int32', 'uint16', 'uint32', 'uint8'):
            ks = [k for k in ints if dt != 'uint8' or k < 256]
            rf = [ref[ints.index(k)] for k in ks]
            try:
                if dt == 'pyint':
                    got_s = [float(f(int(k), *p)) for k in ks]
                    got_a = got_s
                else:
                    got_s = [float(f(getattr(np, dt)(k), *p)) for k in ks]
                    got_a = np.asarray(f(np.array(ks, dtype=dt), *p), dtype=float).tolist()
            except Exception as e:
                ctx.violation('integer-lag', '%s with %s lags raises %s: %s' % (name, dt, type(e).__name__, str(e)[:100]),
                              dict(case, lag_dtype=dt), signature=dict(kind='integer-lag', model=name))
                break
            ctx.count('int_typed_lags')
            if not all_close(got_s, rf, rel=1e-12, abs_=1e-13 * top) or not all_close(got_a, rf, rel=1e-12, abs_=1e-13 * top):
                bad = next(k for k, a, c, w in zip(ks, got_s, got_a, rf) if not close(a, w, rel=1e-12, abs_=1e-13 * top)
                           or not close(c, w, rel=1e-12, abs_=1e-13 * top))
                i = ks.index(bad)
                ctx.violation('integer-lag', '%s(h=%d as %s, %r): scalar call %r, array call %r, with the float lag %r' % (
                    name, bad, dt, p, got_s[i], got_a[i], rf[i]), dict(case, lag_dtype=dt, lag=bad),
                    signature=dict(kind='integer-lag', model=name))
                break
    # translator validation: Float twin of the generated definition
    if name != 'matern':
        for h, v in list(zip(hs, vals))[::3]:
            def cb(fields, h=h, v=v):
                m = parse_floatbits(fields[0])[0]
                if not close(m, v, rel=1e-11, abs_=1e-13 * top):
                    ctx.violation('translation', 'generated %s(%r, %r) = %r, implementation %r' % (
                        name, h, p, m, v), dict(case, h=h))
            ctx.lean.ask(['c03', 'eval', name, floatbits([h] + p)], cb)
            ctx.count('twin_evals')
    if name in ('spherical', 'cubic'):
        # exact rational twin (used by the kriging model) on dyadic inputs
        for h in hs[::9]:
            def cbq(fields, h=h):
                m = parse_nums(fields[0])[0]
                with quiet():
                    v = float(f(h, *p))
                if not close(m, v, rel=1e-11, abs_=1e-13 * top):
                    ctx.violation('translation', 'exact %s(%r, %r) = %r, implementation %r' % (
                        name, h, p, float(m), v), dict(case, h=h))
            ctx.lean.ask(['c03', 'evalq', name, frs([h] + p)], cbq)


NARGS = dict(spherical=2, exponential=2, gaussian=2, cubic=2, stable=3, matern=3)


@guarded
def check_sum(ctx):
    rng = ctx.rng
    k = int(rng.integers(2, 4))
    names = [str(x) for x in rng.choice(['spherical', 'exponential', 'gaussian', 'cubic', 'stable', 'matern'], size=k)]
    mname = '+'.join(names)
    coords = rng.uniform(0, 50, size=(14, 2))
    vals = rng.normal(size=14)
    with quiet():
        V = Variogram(coords, vals, model=mname, fit_method=None, n_lags=4)
        slices = V._get_argpos_sum_models(names)
    ks = [NARGS[n] for n in names]
    case = dict(sum=mname)
    ctx.case(signature=('sum', mname), stream='sum-models', sample=dict(model=mname))
    ctx.count('sum:%d' % k)

    def cb(fields):
        m = [tuple(int(x) for x in t.split(',')) for t in fields[0].split()]
        got = [(int(s.start), int(s.stop)) for s in slices]
        if m != got:
            ctx.violation('sum-slices', '%s: argument slices %r, model %r' % (mname, got, m), case)
    ctx.lean.ask(['c03', 'slices', ints(ks)], cb)
    # value = sum of the components (nugget 0) + the single trailing nugget
    args = []
    comp = []
    for n in names:
        p = params(rng, n)[:-1]
        p[0] = float(rng.uniform(5, 60))
        p[1] = float(rng.uniform(0.2, 5))
        comp.append((n, p))
        args += p
    nug = float(rng.choice([0.0, 0.3, 2.0]))
    args.append(nug)
    for h in [0.0, 1.0, 7.5, 30.0, 80.0, 1e4]:
        with quiet():
            got = float(V._model(h, *args))
            want = math.fsum(float(getattr(models, n)(h, *p, 0.0)) for n, p in comp) + nug
            arr = np.asarray(V._model(np.array([h, h + 1.0]), *args))
        if not close(got, want, rel=1e-12):
            ctx.violation('sum-value', '%s at h=%r with %r: %r, components + nugget = %r' % (
                mname, h, args, got, want), case)
            break
        if not close(float(arr[0]), got, rel=1e-13):
            ctx.violation('sum-array', '%s: array call differs from scalar call' % mname, case)
            break
    # a sum-model function that was handed out stays that sum: neither another '+'-model set on the same
    # instance (different parameter layout) nor one set on a clone may change what it computes
    held = V._model
    with quiet():
        C = V.clone()
        held_clone = C._model
    k2 = 2 if k == 3 else 3
    other = '+'.join(str(x) for x in rng.choice(['stable', 'matern', 'spherical', 'cubic'], size=k2))
    try:
        with quiet():
            V.set_model(other)
            C.set_model('+'.join(reversed(other.split('+'))))
    except (ValueError, AttributeError) as e:
        ctx.reject('set_model:' + type(e).__name__)
        return
    ctx.count('sum_held_after_model_change')
    for h in [0.0, 7.5, 80.0]:
        want = math.fsum(float(getattr(models, n)(h, *p, 0.0)) for n, p in comp) + nug
        for tag, f in (('same instance', held), ('clone', held_clone)):
            try:
                with quiet():
                    got = float(f(h, *args))
            except Exception as e:
                ctx.violation('sum-held', '%s: the function handed out before model=%r was set on the %s now raises %s: %s'
                              % (mname, other, tag, type(e).__name__, str(e)[:100]), dict(case, other=other))
                return
            if not close(got, want, rel=1e-12):
                ctx.violation('sum-held', '%s at h=%r: the function handed out before model=%r was set on the %s now '
                              'gives %r, components + nugget = %r' % (mname, h, other, tag, got, want),
                              dict(case, other=other))
                return


@guarded
def check_fitted(ctx):
    """the fitted model of a Variogram (manual fit, so the parameters are exactly the given ones - Python ints included)
    called on an array / a list equals the lag-by-lag calls; first lag exactly 0"""
    rng = ctx.rng
    name = str(rng.choice(SINGLE))
    ints = bool(rng.random() < 0.5)
    r = int(rng.integers(10, 60)) if ints else float(rng.uniform(10, 60))
    c0 = int(rng.integers(1, 5)) if ints else float(rng.uniform(0.5, 5))
    b = int(rng.choice([0, 1, 2])) if ints else float(rng.choice([0.0, 0.3, 1.1]))
    extra = {}
    if name in ('stable', 'matern'):
        extra['fit_shape'] = float(rng.choice([0.5, 1.0, 1.5]))
    coords = rng.uniform(0, 50, size=(16, 2))
    vals = rng.normal(size=16)
    case = dict(fitted=name, r=r, c0=c0, b=b, extra=extra)
    try:
        with quiet():
            V = Variogram(coords, vals, model=name, fit_method='manual', use_nugget=True, n_lags=5,
                          fit_range=r, fit_sill=c0, fit_nugget=b, **extra)
            fm = V.fitted_model
            hs = [0.0] + [float(x) for x in np.linspace(0, 2.0 * float(r), 9)[1:]]
            one = [float(fm(h)) for h in hs]
            arr = np.asarray(fm(np.array(hs)), dtype=float).tolist()
            lst = np.asarray(fm(list(hs)), dtype=float).tolist()
            tr = np.asarray(V.transform(np.array(hs)), dtype=float).tolist()
    except (ValueError, AttributeError, RuntimeError, ZeroDivisionError) as e:
        ctx.reject('fitted:' + type(e).__name__)
        return
    ctx.count('fitted_model_array:' + ('int' if ints else 'float'))
    ctx.case(signature=('fitted', name, ints), stream='fitted-model')
    top = max(1e-12, abs(float(b)) + float(c0))
    for tag, got in (('array', arr), ('list', lst), ('transform', tr)):
        if not all_close(got, one, rel=1e-12, abs_=1e-13 * top):
            ctx.violation('array', 'fitted %s model (range %r, sill %r, nugget %r): %s call %r, lag by lag %r' % (
                name, r, c0, b, tag, got, one), case)
            return


def run(ctx):
    for k in range(ctx.n(12, 120)):
        check_fitted(ctx)
    for k in range(ctx.n(25, 300)):
        for name in SINGLE:
            check_model(ctx, name)
    for k in range(ctx.n(24, 300)):
        check_sum(ctx)
    ctx.lean.flush()


def replay(ctx, body):
    case = body['case']
    if 'model' in case:
        f = getattr(models, case['model'])
        print('replay %s%r' % (case['model'], tuple(case['params'])))
        for h in [0.0, case['params'][0], case.get('h', case['params'][0] * 2)]:
            print('  h=%r -> %r' % (h, f(h, *case['params'])))
    run(ctx)
