"""C04 - all views of a fitted variogram describe one and the same function."""
import math
import numpy as np
from skgstat import Variogram, OrdinaryKriging, models
from skgstat.interfaces.variogram_estimator import VariogramEstimator

from .common import quiet, frs, parse_nums, close, all_close, gen_coords, gen_values
from .common import guarded

INFO = dict(
    rule='seeded data sets x models (6 single models, 2- and 3-term sums) x use_nugget x fit method {trf, lm, manual '
         'via fit() keywords, manual via fit_* keywords} x fit_sigma; the coefficient vector goes to the Lean model, '
         'all callable views are evaluated on a lag grid incl. 0; distinct = distinct (model, method, use_nugget, '
         'rounded coefficients); non-trivial = every fitted instance',
    trusted=['curve_fit itself (C05)', 'the str()/exec round trip of fitted_model_function is exercised for real'],
    assumptions=['view equality compared at 1e-10 relative'])

SINGLE = ['spherical', 'exponential', 'gaussian', 'cubic', 'stable', 'matern']
KIND = dict(spherical='plain', exponential='plain', gaussian='plain', cubic='plain', stable='shaped', matern='shaped')


def gen(ctx):
    rng = ctx.rng
    n = int(rng.integers(20, 45))
    coords = gen_coords(rng, n, dim=2, kind=str(rng.choice(['uniform', 'clustered'])))
    values = gen_values(rng, coords, 'field')
    r = rng.random()
    if r < 0.7:
        model = str(rng.choice(SINGLE))
    else:
        k = 2 if r < 0.9 else 3
        model = '+'.join(str(x) for x in rng.choice(['spherical', 'exponential', 'gaussian', 'cubic', 'stable'], size=k))
    method = str(rng.choice(['trf', 'trf', 'lm', 'manual_fit', 'manual_kw']))
    if '+' in model and method.startswith('manual'):
        method = 'trf'
    un = bool(rng.random() < 0.5)
    sigma = rng.choice([None, None, 'linear', 'exp', 'sqrt', 'sq'])
    sigma = None if sigma is None else str(sigma)
    man = dict(range=float(rng.uniform(10, 80)), sill=float(rng.uniform(0.5, 8)),
               nugget=float(rng.choice([0.0, 0.3, 1.1])), shape=float(rng.choice([0.5, 1.0, 1.7])))
    return dict(coords=coords.tolist(), values=values.tolist(), model=model, method=method, use_nugget=un,
                fit_sigma=sigma, manual=man, n_lags=int(rng.integers(5, 12)),
                maxlag=str(rng.choice(['median', 'mean'])) if rng.random() < 0.5 else None)


def build(case):
    kw = dict(model=case['model'], use_nugget=case['use_nugget'], n_lags=case['n_lags'], maxlag=case['maxlag'],
              fit_sigma=case['fit_sigma'])
    m = case['manual']
    coords, values = np.array(case['coords']), np.array(case['values'])
    shaped = case['model'] in ('stable', 'matern')
    with quiet():
        if case['method'] in ('trf', 'lm'):
            V = Variogram(coords, values, fit_method=case['method'], **kw)
        elif case['method'] == 'manual_kw':
            extra = dict(fit_range=m['range'], fit_sill=m['sill'], fit_nugget=m['nugget'])
            if shaped:
                extra['fit_shape'] = m['shape']
            V = Variogram(coords, values, fit_method='manual', **kw, **extra)
        else:
            V = Variogram(coords, values, fit_method='trf', **kw)
            V.fit_method = 'manual'
            fk = dict(range=m['range'], sill=m['sill'], nugget=m['nugget'])
            if shaped:
                fk['shape'] = m['shape']
            V.fit(**fk)
    return V


@guarded
def check_case(ctx, case):
    try:
        V = build(case)
        with quiet():
            cof = [float(c) for c in V.cof]
            descr = V.describe()
            params = V.parameters
    except (RuntimeError, ValueError, ZeroDivisionError) as e:
        ctx.reject(type(e).__name__ + ':' + str(e)[:30])
        return
    except OverflowError as e:
        # the unbounded 'lm' search may leave the floating-point range of a model ("lm where it converges")
        if case['method'] == 'lm':
            ctx.reject('lm-diverged:OverflowError')
            return
        ctx.violation('crash', '%s: %s' % (type(e).__name__, e), case)
        return
    except TypeError as e:
        if 'must not exceed the number of data points' in str(e):
            ctx.reject('more-parameters-than-lags')
            return
        ctx.violation('crash', '%s: %s' % (type(e).__name__, e), case)
        return
    except Exception as e:
        ctx.violation('crash', '%s: %s' % (type(e).__name__, e), case)
        return
    model = case['model']
    un = bool(V.use_nugget)
    if case['method'] == 'lm':
        # the unbounded search may return non-physical parameters (range <= 0, sill < 0): outside the models'
        # admissible parameters (C03), "lm where it converges"
        rs = [v for k, v in descr.items() if k.startswith('effective_range') or k.startswith('sill')]
        if any(float(v) <= 0 for v in rs):
            ctx.reject('lm-nonphysical-parameters')
            return
    ctx.count('model:' + ('sum' if '+' in model else model))
    ctx.count('method:' + case['method'])
    ctx.count('use_nugget:%s' % un)
    ctx.case(signature=(model, case['method'], un, tuple(round(c, 9) for c in cof)), stream='views',
             sample=dict(model=model, method=case['method'], use_nugget=un, cof=cof, parameters=[float(p) for p in params]))
    with quiet():
        edges = np.asarray(V.bins, float)
        exp = np.asarray(V.experimental, float)
    grid = np.concatenate(([0.0], np.linspace(0, edges.max() * 1.3, 9)[1:], edges[:3]))

    views = {}
    with quiet():
        fm = V.fitted_model
        views['fitted_model'] = [float(fm(h)) for h in grid]
        views['fitted_model(array)'] = [float(x) for x in fm(grid)]
        views['transform'] = [float(x) for x in V.transform(grid)]
        views['model(*cof)'] = [float(V._model(h, *cof)) for h in grid]
        x, y = V.data(n=7)
        views_data = ([float(a) for a in x], [float(b) for b in y])
        if '+' not in model:
            ok = OrdinaryKriging(V, min_points=2, max_points=5)
            views['kriging.gamma_model'] = [float(ok.gamma_model(h)) for h in grid]
            reb = Variogram.fitted_model_function(**descr)
            views['rebuilt from describe()'] = [float(reb(h)) for h in grid]
            # documented meaning of parameters: range, sill, (shape), nugget of the model function
            views['model(*parameters)'] = [float(getattr(models, model)(h, *[float(p) for p in params])) for h in grid]
    if '+' in model:
        # parameters of a sum: [range, sill, (shape), nugget] per component - the function must be the sum
        # of the components evaluated with exactly these numbers
        names = model.split('+')
        ps = [float(p) for p in params]
        chunks, k = [], 0
        for nme in names:
            w = 4 if nme in ('stable', 'matern') else 3
            chunks.append((nme, ps[k:k + w]))
            k += w
        if k == len(ps):
            try:
                with quiet():
                    views['sum of components(*parameters)'] = [
                        math.fsum(float(getattr(models, nme)(h, *c)) for nme, c in chunks) for h in grid]
            except ZeroDivisionError:
                ctx.count('sum_component_degenerate')   # a component with range / shape 0 (numba 1/0)
        else:
            ctx.violation('parameters-length', 'parameters %r do not split into the components of %s' % (ps, model), case)
            return
    ref = views['fitted_model']
    scale = max(1e-12, max(abs(v) for v in ref))
    for name, vals in views.items():
        if not all_close(vals, ref, rel=1e-10, abs_=1e-10 * scale):
            k = next(i for i, (a, b) in enumerate(zip(vals, ref)) if not close(a, b, rel=1e-10, abs_=1e-10 * scale))
            ctx.violation('views-differ', '%s(%r) = %r but fitted_model = %r (model %s, method %s, use_nugget %s, cof %r, '
                          'parameters %r)' % (name, float(grid[k]), vals[k], ref[k], model, case['method'], un, cof,
                                              [float(p) for p in params]), case,
                          signature=dict(kind='views-differ', view=name, method=case['method']))
            return
    with quiet():
        want = [float(fm(h)) for h in views_data[0]]
    if not all_close(views_data[1], want, rel=1e-10, abs_=1e-10 * scale):
        ctx.violation('views-differ', 'data() differs from fitted_model', case)
        return
    if not un:
        if float(descr.get('nugget', descr.get('nugget_1', 0))) != 0 or abs(ref[0]) > 1e-12 * scale:
            ctx.violation('no-nugget', 'use_nugget=False but nugget=%r, model(0)=%r' % (descr.get('nugget'), ref[0]), case)
            return
    # scikit-learn wrapper
    if case['method'] in ('trf', 'lm') and '+' not in model and ctx.rng.random() < 0.5:
        try:
            with quiet():
                est = VariogramEstimator(model=model, fit_method=case['method'], fit_sigma=case['fit_sigma'],
                                         use_nugget=case['use_nugget'], maxlag=case['maxlag'], n_lags=case['n_lags'],
                                         normalize=False)
                est.fit(np.array(case['coords']), np.array(case['values']))
                pred = [float(v) for v in est.predict(grid)]
                ref2 = [float(est.variogram.fitted_model(h)) for h in grid]
            ctx.count('sklearn_predict')
            if not all_close(pred, ref2, rel=1e-10, abs_=1e-10 * scale):
                ctx.violation('views-differ', 'VariogramEstimator.predict differs from its variogram', case)
            else:
                # the same estimator fitted again (other observations, another model): predict() follows the new fit
                with quiet():
                    v2 = np.array(case['values'])[::-1] * 3.0 + 1.0
                    est.set_params(model='exponential' if model != 'exponential' else 'spherical')
                    est.fit(np.array(case['coords']), v2)
                    pred3 = [float(v) for v in est.predict(grid)]
                    ref3 = [float(est.variogram.fitted_model(h)) for h in grid]
                ctx.count('sklearn_refit_predict')
                scale3 = max(1e-12, max(abs(x) for x in ref3))
                if not all_close(pred3, ref3, rel=1e-10, abs_=1e-10 * scale3):
                    ctx.violation('views-differ', 'after fitting the same VariogramEstimator again predict() %r differs from its '
                                  'variogram\'s fitted model %r' % (pred3[:4], ref3[:4]), case)
        except (RuntimeError, ValueError):
            pass
    # ---- the coefficient layout through the model ------------------------------------------------
    if '+' not in model:
        def cb(f):
            d = parse_nums(f[0])
            mparams = [float(x) for x in parse_nums(f[1])]
            layout = f[5].strip() == '1'
            args_cof, args_reb = f[3], f[4]
            want = [float(p) for p in params]
            dd = [float(descr['effective_range']), float(descr['sill']),
                  None if KIND[model] == 'plain' else float(descr['shape' if model == 'stable' else 'smoothness']),
                  float(descr['nugget'])]
            got = [None if x is None else float(x) for x in d]
            if got != dd or mparams != want:
                ctx.violation('describe-model', 'describe %r / parameters %r, model %r / %r (cof %r)' % (
                    dd, want, got, mparams, cof), case)
            elif args_cof != args_reb:
                ctx.violation('layout', 'coefficient vector %r (use_nugget=%s) is not in the layout describe()/parameters '
                              'assume: model call args %s, rebuilt from describe %s' % (cof, un, args_cof, args_reb),
                              case, signature=dict(kind='layout', method=case['method']))
        ctx.lean.ask(['c04', 'views', KIND[model], '1' if un else '0', frs(cof)], cb)
    # ---- metrics -------------------------------------------------------------------------------
    check_metrics(ctx, V, case, exp, edges, 'fresh')
    # the same instance after its lag edges changed (same number of classes, other maxlag / binning): every
    # metric must follow the new edges and the new experimental values
    step = ('maxlag', 'median' if case['maxlag'] is None else None) if case['n_lags'] % 2 else ('bin_func', 'uniform')
    try:
        with quiet():
            if step[0] == 'maxlag':
                V.maxlag = step[1]
            else:
                V.bin_func = step[1]
            edges2 = np.asarray(V.bins, float)
            exp2 = np.asarray(V.experimental, float)
            V.describe()
    except (RuntimeError, ValueError, ZeroDivisionError, AttributeError, OverflowError, TypeError) as e:
        ctx.reject('rebinned:' + type(e).__name__)
        return
    if not all_close(edges2, edges, rel=1e-12):
        check_metrics(ctx, V, case, exp2, edges2, 'after %s=%r on the same instance' % step)


@guarded
def check_metrics(ctx, V, case, exp, edges, tag):
    if np.any(np.isnan(exp)):
        return
    try:
        with quiet():
            mod = np.asarray(V.transform(edges), float)
            got = dict(rmse=float(V.rmse), mse=float(V.mse), mae=float(V.mae), rss=float(V.rss), nrmse=float(V.nrmse),
                       residuals=np.asarray(V.model_residuals, float))
    except (RuntimeError, ValueError, ZeroDivisionError, AttributeError, OverflowError) as e:
        ctx.reject('metrics:' + type(e).__name__)
        return
    res = mod - exp
    want = dict(rmse=math.sqrt(np.mean(res ** 2)), mse=float(np.mean(res ** 2)), mae=float(np.mean(np.abs(res))),
                rss=float(np.sum(res ** 2)), nrmse=math.sqrt(np.mean(res ** 2)) / float(np.mean(exp)))
    ctx.count('metrics_checked:' + tag.split(' ')[0])
    for k, w in want.items():
        if not close(got[k], w, rel=1e-9, abs_=1e-12):
            ctx.violation('metric-' + k, '%s (%s) = %r, documented definition gives %r' % (k, tag, got[k], w), case)
            return
    if not all_close(got['residuals'], res, rel=1e-9, abs_=1e-12):
        ctx.violation('metric-residuals', 'model_residuals (%s) differ from model - experimental' % tag, case)


def run(ctx):
    for k in range(ctx.n(110, 1200)):
        check_case(ctx, gen(ctx))
    ctx.lean.flush()


def replay(ctx, body):
    check_case(ctx, body['case'])
    ctx.lean.flush()
