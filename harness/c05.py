"""C05 - automatic fits stay in bounds, are locally optimal and ignore empty lag classes.

What reaches `scipy.optimize.curve_fit` is recorded by rebinding the name in the module
namespace and compared with the Lean model (`nanFilter3`, generated bounds table).  Local
optimality is *validated* numerically (restarts), not proved.
"""
import sys
import math
import traceback
import numpy as np
import scipy.optimize

from skgstat import Variogram, models

from .common import quiet, frs, fr, parse_nums, close, all_close, gen_coords, gen_values, floatbits, parse_floatbits
from .common import guarded

INFO = dict(
    rule='seeded data sets (incl. two far clusters producing empty lag classes) x models x use_nugget x fit_sigma '
         '{None, linear, exp, sqrt, sq, explicit array} x n_lags / maxlag x {trf, lm}; distinct = distinct (model, '
         'method, sigma, NaN pattern, rounded coefficients); non-trivial = a fit was returned',
    trusted=['scipy.optimize.curve_fit: only its inputs, the bounds and the (local) optimality of its output are '
             'checked; optimality by re-optimising from the result and from 8 perturbations (numeric, not a proof)'],
    assumptions=['objective decrease below 1e-6 relative is treated as converged'])

VM = sys.modules['skgstat.Variogram']
SINGLE = ['spherical', 'exponential', 'gaussian', 'cubic', 'stable', 'matern']
NPAR = dict(spherical=2, exponential=2, gaussian=2, cubic=2, stable=3, matern=3)


class Recorder:
    def __init__(self):
        self.calls = []
        self.real = scipy.optimize.curve_fit

    def __call__(self, f, xdata, ydata, **kw):
        self.calls.append(dict(f=f, x=np.array(xdata, float), y=np.array(ydata, float),
                               sigma=None if kw.get('sigma') is None else np.array(kw['sigma'], float),
                               p0=None if kw.get('p0') is None else np.array(kw['p0'], float),
                               bounds=kw.get('bounds'), method=kw.get('method')))
        ret = self.real(f, xdata, ydata, **kw)
        self.calls[-1]['popt'] = np.array(ret[0], float)      # what SciPy handed back for this call
        return ret


def gen(ctx):
    rng = ctx.rng
    kind = str(rng.choice(['uniform', 'clustered', 'twoclusters', 'twoclusters']))
    n = int(rng.integers(16, 40))
    coords = gen_coords(rng, n, dim=2, kind=kind)
    values = gen_values(rng, coords, 'field')
    model = str(rng.choice(SINGLE)) if rng.random() < 0.85 else \
        ('+'.join(str(x) for x in rng.choice(['spherical', 'exponential', 'gaussian'], size=2)) if rng.random() < 0.5 else
         # sums with components that carry a shape parameter of their own (each with its own documented limit)
         '+'.join(str(x) for x in rng.permutation(['stable', 'matern'] + ([str(rng.choice(['spherical', 'cubic']))]
                                                                           if rng.random() < 0.4 else []))))
    method = 'trf' if rng.random() < 0.7 else 'lm'
    nl = int(rng.integers(6, 14))
    sig = rng.choice(['none', 'none', 'linear', 'exp', 'sqrt', 'sq', 'array'])
    sigma = None if sig == 'none' else (rng.uniform(0.5, 2.0, size=nl).tolist() if sig == 'array' else str(sig))
    # what a per-class uncertainty looks like at an empty class (std / sqrt(N) with N = 0): inf / NaN / huge there
    empty_fill = str(rng.choice(['keep', 'inf', 'nan', 'huge'])) if sig == 'array' else 'keep'
    from scipy.spatial.distance import pdist
    dmax = float(pdist(coords).max())
    ml = rng.choice(['none', 'none', 'ratio', 'median', 'abs_above', 'abs_below'])
    maxlag = {'none': None, 'ratio': float(rng.choice([0.6, 0.8])), 'median': 'median',
              'abs_above': dmax * 1.5 + 1, 'abs_below': max(1.5, dmax * 0.7)}[str(ml)]
    binf = str(rng.choice(['even', 'even', 'uniform', 'kmeans', 'sturges'])) if sig != 'array' else 'even'
    if sig != 'array' and rng.random() < 0.15:
        # own lag edges with a repeated edge: a zero-width (always empty) class directly behind a populated one
        e = sorted(float(x) for x in dmax * rng.uniform(0.08, 0.95, size=int(rng.integers(4, 8))))
        k = int(rng.integers(1, len(e)))
        e.insert(k, e[k - 1])
        binf = e
        maxlag = None
    return dict(coords=coords.tolist(), values=values.tolist(), model=model, method=method, n_lags=nl,
                use_nugget=bool(rng.random() < 0.5), fit_sigma=sigma, kind=kind, maxlag=maxlag, bin_func=binf,
                sigma_at_empty=empty_fill)


def objective(f, x, y, sigma, p):
    with quiet():
        m = np.asarray(f(x, *p), float)
    s = np.ones_like(y) if sigma is None else sigma
    return float(np.sum(((m - y) / s) ** 2))


def same_up_to_scale(a, b):
    """equal up to one positive factor: rescaling all weights does not change the minimisers of the objective"""
    if len(a) != len(b):
        return False
    if not a:
        return True
    if not all(math.isfinite(x) and x > 0 for x in a) or not all(math.isfinite(x) and x > 0 for x in b):
        return a == b
    k = b[0] / a[0]
    return all(abs(y - k * x) <= 1e-12 * abs(y) for x, y in zip(a, b))


@guarded
def check_case(ctx, case):
    if isinstance(case['fit_sigma'], list) and case.get('sigma_at_empty', 'keep') != 'keep':
        # find the empty lag classes first (no fit), then put inf / NaN / a huge number there
        try:
            with quiet():
                P = Variogram(np.array(case['coords']), np.array(case['values']), n_lags=case['n_lags'],
                              maxlag=case['maxlag'], bin_func=case.get('bin_func', 'even'), fit_method=None)
                empty = np.isnan(np.asarray(P.experimental, float))
        except Exception:
            empty = np.zeros(len(case['fit_sigma']), bool)
        if len(empty) == len(case['fit_sigma']) and empty.any():
            fill = dict(inf=float('inf'), nan=float('nan'), huge=1e300)[case['sigma_at_empty']]
            case = dict(case, fit_sigma=[fill if e else v for v, e in zip(case['fit_sigma'], empty)])
            ctx.count('sigma_array_' + case['sigma_at_empty'] + '_at_empty_classes')
    rec = Recorder()
    VM.curve_fit = rec
    err = None
    try:
        with quiet():
            V = Variogram(np.array(case['coords']), np.array(case['values']), model=case['model'],
                          fit_method=case['method'], n_lags=case['n_lags'], use_nugget=case['use_nugget'],
                          fit_sigma=case['fit_sigma'], maxlag=case['maxlag'], bin_func=case.get('bin_func', 'even'))
            cof = None if V.cof is None else [float(c) for c in V.cof]
            edges = np.asarray(V.bins, float)
            exp = np.asarray(V.experimental, float)
            fs = V.fit_sigma
            fs = None if fs is None else np.asarray(fs, float)
    except Exception as e:
        err = e
        tb = traceback.extract_tb(e.__traceback__)
    finally:
        VM.curve_fit = rec.real
    has_nan = None
    if err is not None:
        name = type(err).__name__
        frames = [f.name for f in tb]
        if isinstance(err, ZeroDivisionError):
            ctx.violation('crash', 'ZeroDivisionError during the fit (model %s)' % case['model'], case,
                          signature=dict(kind='fit-crash', exception='ZeroDivisionError',
                                         # D13 is a property of the stable model, alone or as a component of a '+'-sum
                                         model='stable' if 'stable' in case['model'].split('+') else case['model'],
                                         in_curve_fit=bool(rec.calls)))
            return
        if isinstance(err, OverflowError) and case['method'] == 'lm':
            ctx.reject('lm-diverged:OverflowError')     # "lm where it converges"
            return
        if isinstance(err, ValueError) and 'math domain error' in str(err) and case['method'] == 'lm' and \
                frames and frames[-1] in ('stable', 'matern'):
            # the unbounded optimiser walked to a negative shape / smoothness: the model is not defined there
            ctx.reject('lm-diverged:math-domain-error')
            return
        if isinstance(err, RuntimeError) and 'Optimal parameters not found' in str(err):
            ctx.reject('optimizer-did-not-converge')
            return
        if isinstance(err, TypeError) and ('must not exceed the number of data points' in str(err)
                                           or 'Improper input' in str(err)):
            ctx.reject('more-parameters-than-lags')
            return
        if isinstance(err, ValueError) and ('infeasible' in str(err) or 'x0' in str(err)):
            ctx.reject('infeasible-start:' + str(err)[:30])
            return
        ctx.violation('crash', '%s: %s (fit_sigma=%r, empty classes possible: %s)' % (
            name, str(err)[:200], case['fit_sigma'], case['kind'] == 'twoclusters'), case,
            signature=dict(kind='fit-crash', exception=name))
        return
    if not rec.calls or cof is None:
        ctx.reject('no-fit')
        return
    call = rec.calls[-1]
    nanpat = tuple(bool(math.isnan(v)) for v in exp)
    ctx.count('model:' + ('sum' if '+' in case['model'] else case['model']))
    ctx.count('method:' + case['method'])
    ctx.count('sigma:' + ('array' if isinstance(case['fit_sigma'], list) else str(case['fit_sigma'])))
    if any(nanpat):
        ctx.count('with_empty_classes')
    ctx.case(signature=(case['model'], case['method'], str(case['fit_sigma'])[:12], nanpat,
                        tuple(round(c, 6) for c in cof)), stream='fit',
             sample=dict(model=case['model'], method=case['method'], fit_sigma=case['fit_sigma'] if not
                         isinstance(case['fit_sigma'], list) else 'array', nan_classes=int(sum(nanpat)), cof=cof))

    # ---- inputs of curve_fit vs the model ---------------------------------------------------
    def cb(f):
        mx = [float(v) for v in parse_nums(f[0])] if f[0] else []
        my = [float(v) for v in parse_nums(f[1])] if f[1] else []
        ms = None if f[2].strip() == 'none' else [float(v) for v in parse_nums(f[2])]
        if mx != call['x'].tolist() or my != call['y'].tolist():
            ctx.violation('fit-inputs', 'curve_fit received x=%r y=%r, model (NaN classes removed) x=%r y=%r' % (
                call['x'].tolist(), call['y'].tolist(), mx, my), case)
        elif (ms is None) != (call['sigma'] is None) or (ms is not None and not same_up_to_scale(ms, call['sigma'].tolist())):
            ctx.violation('fit-sigma', 'curve_fit received sigma=%r, model %r' % (
                None if call['sigma'] is None else call['sigma'].tolist(), ms), case)
    ctx.lean.ask(['c05', 'filter', frs(edges), ' '.join('nan' if math.isnan(v) else fr(v) for v in exp),
                  'none' if fs is None else frs([x if math.isfinite(x) else -1.0 for x in fs.tolist()])], cb)
    if isinstance(case['fit_sigma'], str) and fs is not None:
        # named weights: generated formula (Float twin) on x = lag edge / largest lag edge
        xrel = (edges / np.max(edges)).tolist()

        def cbs(f):
            m = parse_floatbits(f[0])
            if not all_close(m, fs.tolist(), rel=1e-12):
                ctx.violation('fit-sigma-formula', "fit_sigma=%r: weights %r, generated formula %r" % (
                    case['fit_sigma'], fs.tolist(), m), case)
        ctx.lean.ask(['c05', 'sigma', case['fit_sigma'], floatbits(xrel)], cbs)
    if case['method'] == 'trf':
        names = case['model'].split('+')
        # documented bounds, stated directly (independent of the model): range <= largest lag edge, sill <=
        # largest experimental value, shape <= 2, smoothness <= 20, nugget <= 0.99 * largest experimental value
        doc = []
        for nme in names:
            doc += [float(np.nanmax(edges)), float(np.nanmax(exp))] + ([2.0] if nme == 'stable' else [20.0] if nme == 'matern' else [])
        if case['use_nugget']:
            doc.append(0.99 * float(np.nanmax(exp)))
        if len(doc) == len(cof) and any(c < -1e-12 or c > u * (1 + 1e-9) + 1e-300 for c, u in zip(cof, doc)):
            ctx.violation('out-of-bounds', 'fitted parameters %r leave the documented bounds [0, %r] (largest lag edge %r, '
                          'largest experimental value %r)' % (cof, doc, float(np.nanmax(edges)), float(np.nanmax(exp))), case)
            return

        def cbb(f):
            ub = [float(v) for v in parse_nums(f[0])]
            lo, hi = call['bounds']
            hi = [float(v) for v in np.atleast_1d(hi)]
            if not all_close(hi, ub, rel=1e-14) or np.any(np.atleast_1d(lo) != 0):
                ctx.violation('bounds', 'curve_fit bounds (%r, %r), documented upper bounds %r' % (lo, hi, ub), case)
            elif call['p0'] is None or not all_close(call['p0'].tolist(), ub, rel=1e-14):
                ctx.violation('p0', 'initial guess %r is not the documented one %r' % (call['p0'], ub), case)
            elif any(c < -1e-12 or c > u * (1 + 1e-12) for c, u in zip(cof, ub)):
                ctx.violation('out-of-bounds', 'fitted parameters %r leave [0, %r]' % (cof, ub), case)
        ctx.lean.ask(['c05', 'bounds', ' '.join(names), '1' if case['use_nugget'] else '0',
                      fr(float(np.nanmax(edges))), fr(float(np.nanmax(exp)))], cbb)

    # ---- numeric optimality (validation, not proof) -------------------------------------------------
    f, x, y, sg = call['f'], call['x'], call['y'], call['sigma']
    if sg is not None and len(sg) != len(y):
        return
    obj = objective(f, x, y, sg, cof)
    p0 = call['p0'] if call['p0'] is not None else np.ones(len(cof))
    obj0 = objective(f, x, y, sg, p0)
    scale = max(obj, 1e-12)
    if obj > obj0 * (1 + 1e-6) + 1e-12:
        ctx.violation('worse-than-start', 'objective at the result %r > at the initial guess %r' % (obj, obj0), case)
        return
    if case['method'] == 'lm' and (cof[0] <= 0 or cof[1] < 0):
        ctx.reject('lm-nonphysical-parameters')      # "lm where it converges" (as in C04)
        return
    if case['method'] in ('trf', 'lm'):
        best = obj
        starts = [np.array(cof)]
        if case['method'] == 'trf':
            lo, hi = call['bounds']
            hi = np.atleast_1d(np.array(hi, float))
        else:
            # the reported coefficients of an lm fit: with the nugget disabled the wrapped model has one
            # parameter less than the reported vector only if a literal 0 was appended - use what curve_fit saw
            lo, hi = -np.inf, np.full(len(cof), np.inf)
            if call['p0'] is not None and len(call['p0']) != len(cof):
                starts = []
        for k in range(8 if ctx.tier == 'thorough' else 3):
            if not starts:
                break
            pert = np.array(cof) * ctx.rng.uniform(0.999, 1.001, size=len(cof))
            starts.append(np.clip(pert, 1e-9, hi * (1 - 1e-9)) if case['method'] == 'trf' else pert)
        for st in starts:
            try:
                with quiet():
                    if case['method'] == 'trf':
                        p, _ = rec.real(f, x, y, sigma=sg, p0=st, bounds=(lo, hi), method='trf')
                    else:
                        p, _ = rec.real(f, x, y, sigma=sg, p0=st, method='lm')
                o = objective(f, x, y, sg, p)
                if math.isfinite(o):
                    best = min(best, o)
            except Exception:
                continue
        ctx.count('restarts', len(starts))
        # "noticeably": relative to the result and to the weighted total sum of squares (the scale
        # of the objective; with fit_sigma='exp' the weights span many orders of magnitude)
        tss = float(np.sum((y / (1.0 if sg is None else sg)) ** 2))
        # lm (unbounded, default tolerances) creeps along flat valleys: only a clear drop counts there
        rel = 1e-4 if case['method'] == 'trf' else 5e-2
        if obj - best > rel * obj and obj - best > 1e-6 * tss:
            at_lower = bool(any(abs(c) <= 1e-9 * max(1.0, float(h_)) for c, h_ in zip(cof, hi)))
            ctx.violation('not-locally-optimal', 're-optimising near the reported parameters %r lowers the objective '
                          'from %r to %r' % (cof, obj, best), case,
                          signature=dict(kind='not-locally-optimal', sum_model='+' in case['model'], method=case['method'],
                                         # the reported coefficients are exactly what scipy.optimize.curve_fit
                                         # returned for the (separately checked) documented inputs
                                         equals_curve_fit_output=bool(
                                             call.get('popt') is not None and len(call['popt']) <= len(cof) and
                                             np.array_equal(np.array(cof[:len(call['popt'])]), call['popt'])),
                                         parameter_at_lower_bound=at_lower,
                                         fit_sigma='array' if isinstance(case['fit_sigma'], list) else str(case['fit_sigma'])))


def run(ctx):
    for k in range(ctx.n(110, 1200)):
        check_case(ctx, gen(ctx))
    ctx.lean.flush()


def replay(ctx, body):
    check_case(ctx, body['case'])
    ctx.lean.flush()
