"""C06 - changing parameters in place is equivalent to building a fresh variogram.

Histories of setter assignments interleaved with reads are run on the real class; every read
is compared with a freshly constructed instance for the final settings, and the pattern of
filled private caches after every operation with the Lean cache machine (whose invalidation
table is extracted from the source).
"""
import math
import itertools
import numpy as np

from skgstat import Variogram, DirectionalVariogram, MetricSpace

from .common import quiet, all_close, close, gen_coords, gen_values
from .common import guarded

INFO = dict(
    rule='histories over an alphabet of ~24 (plain) / ~32 (directional) assignments (two values per setting incl. '
         're-assigning the current one) with reads interleaved; all length-1 histories, seeded length-2 (exhaustive in '
         'the thorough tier) and random histories of length 3-8, from 4 constructor configurations; n_lags / maxlag '
         'under user-supplied edges are excluded; distinct = distinct op sequence; non-trivial = at least one '
         'assignment that changes a value followed by a read',
    trusted=['the fit is deterministic for equal inputs (compared at 1e-6 relative)'],
    assumptions=['fit_method="manual" is outside the alphabet (no defined fresh result without parameters)'])

READS = ['bins', 'bin_count', 'experimental', 'parameters', 'transform', 'n_lags']
CACHE_ATTRS = ['_bins', '_groups', '_bin_count', '_diff', 'cof']
SETTER_TOKEN = dict(values='set_values', n_lags='n_lags.setter', maxlag='maxlag.setter', bin_func='set_bin_func',
                    bins='bins.setter', estimator='set_estimator', model='set_model', use_nugget='use_nugget.setter',
                    fit_method='fit_method.setter', fit_sigma='fit_sigma.setter', dist_function='set_dist_function',
                    azimuth='azimuth.setter', tolerance='tolerance.setter', bandwidth='bandwidth.setter',
                    directional_model='set_directional_model')


class World:
    def __init__(self, rng, directional):
        n = int(rng.integers(22, 34))
        self.coords = gen_coords(rng, n, dim=2, kind=str(rng.choice(['uniform', 'clustered'])))
        self.vals = [gen_values(rng, self.coords, 'field'), gen_values(rng, self.coords, 'noise') * 2 + 5]
        # value tables with the same primary variable as table 0 and a co-variable (cross-variograms)
        self.vals.append(np.column_stack([self.vals[0], gen_values(rng, self.coords, 'noise') + 3]))
        self.vals.append(np.column_stack([self.vals[0], gen_values(rng, self.coords, 'field') * 0.5]))
        self.directional = directional
        from scipy.spatial.distance import pdist
        dmax = float(pdist(self.coords).max())
        self.edges = [[round(dmax * f, 3) for f in (0.15, 0.3, 0.5, 0.7)],
                      [round(dmax * f, 3) for f in (0.1, 0.25, 0.45, 0.6, 0.8)]]
        self.far_maxlag = round(dmax * 1.5, 3)
        self.alphabet = []
        A = self.alphabet
        for k in (0, 1, 2, 3):
            A.append(('values', k))
        for v in (5, 8, 'current'):
            A.append(('n_lags', v))     # 'current': re-assign the number of classes in use right now
        # absolute maximum lags: within the data, and beyond every distance (the edges then end at the largest
        # *selected* distance, which for a directional variogram depends on the direction settings)
        for v in (None, 0.6, 'median', round(dmax * 0.85, 3), round(dmax * 1.5, 3)):
            A.append(('maxlag', v))
        for v in ('even', 'uniform', 'sturges', 'edges0'):
            A.append(('bin_func', v))
        if not directional:
            A.append(('bins', 'edges1'))   # DirectionalVariogram.bins has no setter
        for v in ('matheron', 'dowd'):
            A.append(('estimator', v))
        for v in ('spherical', 'exponential'):
            A.append(('model', v))
        for v in (True, False):
            A.append(('use_nugget', v))
        for v in ('trf', 'lm'):
            A.append(('fit_method', v))
        for v in (None, 'linear'):
            A.append(('fit_sigma', v))
        if not directional:
            for v in ('euclidean', 'cityblock'):
                A.append(('dist_function', v))
        else:
            for v in (0, 60):
                A.append(('azimuth', v))
            for v in (45.0, 100.0):
                A.append(('tolerance', v))
            for v in ('q33', round(dmax * 0.4, 3), round(dmax * 3, 3)):   # the last one exceeds every distance
                A.append(('bandwidth', v))
            for v in ('compass', 'triangle'):
                A.append(('directional_model', v))

    def base_cfgs(self):
        c0 = dict(values=0, n_lags=6, maxlag=None, bin_func='even', bins=None, estimator='matheron', model='spherical',
                  use_nugget=False, fit_method='trf', fit_sigma=None, dist_function='euclidean')
        c1 = dict(c0, n_lags=7, maxlag='median', bin_func='uniform', use_nugget=True, model='exponential')
        c2 = dict(c0, bin_func='sturges', estimator='dowd', fit_sigma='linear')
        # equidistant classes up to an absolute maximum lag beyond the data: they end at the largest selected distance
        c3 = dict(c0, n_lags=5, maxlag=self.far_maxlag)
        if self.directional:
            d = dict(azimuth=0, tolerance=45.0, bandwidth='q33', directional_model='triangle')
            return [dict(c0, **d), dict(c1, **dict(d, azimuth=60)), dict(c2, **dict(d, directional_model='compass')),
                    dict(c3, **d)]
        return [c0, c1, c2, c3]

    def edges_of(self, v):
        return self.edges[0] if v == 'edges0' else self.edges[1]

    def construct(self, cfg):
        kw = dict(estimator=cfg['estimator'], model=cfg['model'], use_nugget=cfg['use_nugget'],
                  fit_method=cfg['fit_method'], fit_sigma=cfg['fit_sigma'], maxlag=cfg['maxlag'], n_lags=cfg['n_lags'])
        bf = cfg['bin_func']
        if cfg['bins'] is not None:
            bf = self.edges_of(cfg['bins'])
        elif isinstance(bf, str) and bf.startswith('edges'):
            bf = self.edges_of(bf)
        kw['bin_func'] = bf
        if isinstance(bf, list):
            kw['maxlag'] = None
        vals = self.vals[cfg['values']].copy()
        with quiet():
            if self.directional:
                return DirectionalVariogram(self.coords.copy(), vals, dist_func=cfg['dist_function'],
                                            azimuth=cfg['azimuth'], tolerance=cfg['tolerance'], bandwidth=cfg['bandwidth'],
                                            directional_model=cfg['directional_model'], **kw)
            ms = MetricSpace(self.coords.copy(), cfg['dist_function'])
            return Variogram(ms, vals, dist_func=cfg['dist_function'], **kw)

    def apply(self, V, cfg, op):
        """assign on the instance, update the configuration; False if the op is excluded here"""
        name, v = op
        custom = cfg['bins'] is not None or (isinstance(cfg['bin_func'], str) and cfg['bin_func'].startswith('edges'))
        if name in ('n_lags', 'maxlag') and custom:
            return False
        with quiet():
            if name == 'n_lags' and v == 'current':
                v = int(V.n_lags)
                op = (name, v)
            if name == 'values':
                V.values = self.vals[v].copy()
            elif name == 'bin_func':
                V.bin_func = self.edges_of(v) if v.startswith('edges') else v
                cfg['bins'] = None
            elif name == 'bins':
                V.bins = np.array(self.edges_of(v))
            elif name == 'dist_function':
                V.dist_function = v
            elif name == 'directional_model':
                V.set_directional_model(v)
            else:
                setattr(V, name, v)
        cfg[name] = v
        return True


def read(V, what, grid):
    with quiet():
        if what == 'n_lags':
            return ('n_lags', int(V.n_lags))       # read on its own, *before* any read of the edges
        if what == 'bins':
            return ('bins', np.asarray(V.bins, float).tolist(), int(V.n_lags))
        if what == 'bin_count':
            return ('bin_count', np.asarray(V.bin_count).tolist())
        if what == 'experimental':
            return ('experimental', np.asarray(V.experimental, float).tolist())
        if what == 'parameters':
            return ('parameters', [float(p) for p in V.parameters])
        if what == 'transform':
            return ('transform', np.asarray(V.transform(grid), float).tolist())
    raise ValueError(what)


def equal_obs(a, b):
    if a[0] == 'bins':
        return all_close(a[1], b[1], rel=1e-12) and a[2] == b[2]
    if a[0] in ('bin_count', 'n_lags'):
        return a[1] == b[1]
    if a[0] == 'experimental':
        return all_close(a[1], b[1], rel=1e-9)
    scale = max([1e-12] + [abs(x) for x in b[1] if not math.isnan(x)])
    return all_close(a[1], b[1], rel=1e-6, abs_=1e-6 * scale)


def pattern(V, directional):
    p = ''.join('1' if getattr(V, a, None) is not None else '0' for a in CACHE_ATTRS)
    if directional:
        p += '1' if V._direction_mask_cache is not None else '0'
    return p


def classify(history, cfg0, what):
    """known gap classes of DESIGN section 5 as patterns over the history"""
    sets = [op for op in history if op[0] == 's']
    names = [op[1][0] for op in sets]
    if 'use_nugget' in names and what in ('parameters', 'transform'):
        return 'use_nugget-after-fit'
    rel = lambda v: v is not None and (isinstance(v, str) or v < 1)
    ml = cfg0['maxlag']
    for op in sets:
        if op[1][0] == 'maxlag':
            ml = op[1][1]
        if op[1][0] == 'dist_function' and rel(ml):
            return 'relative-maxlag-then-dist_function'
    seen_edges = isinstance(cfg0['bin_func'], str) and cfg0['bin_func'].startswith('edges')
    seen_bins = False
    for op in sets:
        n, v = op[1]
        if n == 'bin_func':
            if isinstance(v, str) and v.startswith('edges'):
                seen_edges = True
            elif seen_edges or seen_bins:
                return 'custom-edges-then-named-binning'
        if n == 'bins':
            seen_bins = True
        if n == 'dist_function' and seen_bins:
            return 'bins-then-dist_function'
    return None


def nlags_read_derives(V):
    """reading n_lags has to derive the number of classes from the lag edges (nothing stored, or a rule-based binning
    whose edges were dropped)"""
    name = getattr(V, '_bin_func_name', None)
    derived = isinstance(name, str) and name.lower() not in ('even', 'uniform', 'kmeans', 'ward', 'stable_entropy',
                                                             'custom_func', 'custom_bin_edges')
    return getattr(V, '_n_lags', 0) is None or (derived and getattr(V, '_bins', 0) is None)


@guarded
def run_history(ctx, world, cfg0, history):
    """history: list of ('s', (name, value)) / ('r', read)"""
    directional = world.directional
    cfg = dict(cfg0)
    case = dict(directional=directional, cfg0=cfg0, history=[[k, list(v) if isinstance(v, tuple) else v] for k, v in history],
                coords=world.coords.tolist(), values=[v.tolist() for v in world.vals], edges=world.edges)
    try:
        V = world.construct(cfg)
    except Exception as e:
        ctx.reject('construct:' + type(e).__name__)
        return
    with quiet():
        grid = np.linspace(0, float(np.max(V.bins)) * 1.1, 4)
    toks = ['r:parameters']
    pats = [pattern(V, directional)]
    executed = []
    changed = False
    fresh_cache = {}

    def fresh():
        key = repr(sorted(cfg.items(), key=lambda kv: kv[0]))
        if key not in fresh_cache:
            fresh_cache[key] = world.construct(dict(cfg))
        return fresh_cache[key]

    def compare(what):
        try:
            got = read(V, what, grid)
        except (RuntimeError, ValueError, TypeError, ZeroDivisionError, AttributeError) as e:
            # a fresh instance must fail the same way, otherwise the in-place instance is broken
            try:
                read(fresh(), what, grid)
            except Exception:
                ctx.reject('read-fails-also-fresh:' + type(e).__name__)
                return None
            ctx.violation('history-crash', 'after %r reading %s raises %s: %s, a fresh instance does not' % (
                executed, what, type(e).__name__, str(e)[:100]), case,
                signature=dict(kind='history', gap=classify(executed, cfg0, what), crash=True))
            return False
        try:
            want = read(fresh(), what, grid)
        except Exception as e:
            ctx.reject('fresh-fails:' + type(e).__name__)
            return None
        if not equal_obs(got, want):
            ctx.violation('stale-' + what, 'after %r: %s = %r, a fresh instance with the final settings gives %r' % (
                [(k, v) for k, v in executed], what, got[1:], want[1:]), case,
                signature=dict(kind='history', gap=classify(executed, cfg0, what), read=what))
            return False
        return True

    expanded = []
    for kind, arg in history:
        expanded.append((kind, arg))
    for kind, arg in expanded:
        if kind == 's' and arg == ('n_lags', 'current') and nlags_read_derives(V):
            # reading the current number of classes derives it from the lag edges: that is a read of `bins`
            executed.append(('r', 'bins'))
            res = compare('bins')
            if res is not True:
                return
            toks.append('r:bins')
            pats.append(pattern(V, directional))
        if kind == 's':
            before = cfg.get(arg[0])
            try:
                ok = world.apply(V, cfg, arg)
            except (ValueError, AttributeError, TypeError) as e:
                ctx.reject('setter:' + type(e).__name__)
                return
            if not ok:
                continue
            if before != arg[1]:
                changed = True
            executed.append(('s', arg))
            alt = arg[0] == 'bin_func' and isinstance(arg[1], str) and arg[1].startswith('edges')
            if arg[0] in ('dist_function', 'azimuth', 'tolerance', 'bandwidth', 'directional_model'):
                # the reset of the lag edges is skipped while user-supplied edges are active
                alt = getattr(V, '_bin_func_name', None) == 'custom_bin_edges'
            toks.append('s:' + SETTER_TOKEN[arg[0]] + ('!' if alt else ''))
        else:
            executed.append(('r', arg))
            before_pat = pattern(V, directional)
            res = compare(arg)
            if res is False:
                return
            if res is None:
                return
            if arg == 'n_lags':
                # the number of classes is a stored number, or - while a rule-based binning has not derived it yet -
                # a read of the lag edges; for the cache machine it is the latter or nothing
                if pattern(V, directional) == before_pat:
                    continue
                toks.append('r:bins')
            else:
                toks.append('r:' + arg)
        pats.append(pattern(V, directional))
    # every observable at the end
    for what in READS:
        if what == 'n_lags':
            continue
        executed.append(('r', what))
        res = compare(what)
        if res is not True:
            return
        toks.append('r:' + what)
        pats.append(pattern(V, directional))
    ctx.case(signature=tuple(toks) if changed else None, stream='histories-directional' if directional else 'histories',
             sample=dict(directional=directional, ops=toks[1:9]))
    ctx.count('len:%d' % sum(1 for k, _ in history if k == 's'))

    # cache pattern vs the Lean machine
    def cb(f):
        out = f[0].split()
        for k, (tok, mp, ip) in enumerate(zip(toks, out, pats)):
            mpat = mp.split(':')[0]
            if not directional:
                mpat = mpat[:5]
            if mpat != ip:
                ctx.tie_break('cache pattern after %r: implementation %s (bins groups bin_count diff cof%s), model %s; '
                              'history %r' % (tok, ip, ' mask' if directional else '', mpat, toks))
                return
    ctx.lean.ask(['c06', 'run', ' '.join(toks)], cb)


def histories(ctx, world, exhaustive2):
    rng = ctx.rng
    A = world.alphabet
    out = []
    for a in A:
        out.append([('s', a)])
        out.append([('r', str(rng.choice(READS))), ('s', a)])
    pairs = list(itertools.product(A, A))
    if not exhaustive2:
        idx = rng.choice(len(pairs), size=min(len(pairs), ctx.n(90, 400)), replace=False)
        pairs = [pairs[i] for i in idx]
    for a, b in pairs:
        h = []
        if rng.random() < 0.5:
            h.append(('r', str(rng.choice(READS))))
        h.append(('s', a))
        if rng.random() < 0.6:
            h.append(('r', str(rng.choice(READS))))
        h.append(('s', b))
        out.append(h)
    for k in range(ctx.n(40, 600)):
        h = []
        for j in range(int(rng.integers(3, 9))):
            if rng.random() < 0.35:
                h.append(('r', str(rng.choice(READS))))
            h.append(('s', A[int(rng.integers(0, len(A)))]))
        out.append(h)
    return out


def run(ctx):
    for directional in (False, True):
        if directional:
            try:
                with quiet():
                    DirectionalVariogram(np.random.default_rng(0).uniform(0, 10, (12, 2)), np.arange(12.0))
            except Exception:
                ctx.count('directional_unavailable')
                continue
        world = World(ctx.rng, directional)
        cfgs = world.base_cfgs()
        hs = histories(ctx, world, exhaustive2=(ctx.tier == 'thorough' and not directional))
        for k, h in enumerate(hs):
            run_history(ctx, world, cfgs[k % len(cfgs)], h)
            if (k + 1) % 200 == 0:
                ctx.lean.flush()
    ctx.lean.flush()


def replay(ctx, body):
    c = body['case']
    world = World(np.random.default_rng(0), c['directional'])
    world.coords = np.array(c['coords'])
    world.vals = [np.array(v) for v in c['values']]
    world.edges = c['edges']
    hist = [(k, tuple(v) if k == 's' else v) for k, v in c['history']]
    run_history(ctx, world, c['cfg0'], hist)
    ctx.lean.flush()
