"""C07 - ordinary kriging returns the solution of the ordinary-kriging system.

Per target: neighbour selection by the Lean model (`findClosestDense`, exact on the float
distances), exact rational solve of the assembled system with residual certificate, estimate
and variance; NaN pattern / counters through the bookkeeping model (`transformLoop`).
"""
import math
import numpy as np

from scipy.spatial.distance import pdist, squareform

from .common import frs, fr, parse_nums, close, quiet
from .common import guarded
from . import krig

INFO = dict(
    rule='seeded observation sets (uniform / clustered / lattice, 2-3-D) x models {spherical, exponential, '
         'cubic, stable, matern} x nugget x min/max_points x metric x sparse x solver; targets inside, '
         'outside, far outside the hull, on observations and at lattice ties; distinct = distinct '
         '(neighbour sets, NaN pattern); non-trivial = at least one estimated and >= 2 distinct neighbour sets',
    trusted=['LAPACK solve (numpy / scipy) is compared numerically: |dz| <= 1e-12*cond*scale + 1e-9',
             'semivariances are taken from the implementation\'s fitted model (C03/C04 check it)'],
    assumptions=['systems with condition number > 1e9 are skipped for the numeric comparison'],
)


def admissible(sel_impl, sel_model, row):
    """equal, or equal up to the choice among equidistant candidates at the cut"""
    if sorted(sel_impl) == sorted(sel_model):
        return True
    a = sorted(float(row[j]) for j in sel_impl)
    b = sorted(float(row[j]) for j in sel_model)
    return a == b


@guarded
def check_case(ctx, case):
    try:
        ok = krig.build(case)
        targets = np.array(case['targets'], float)
        z, sigma, n_less, n_sing = krig.run_transform(ok, targets)
    except (ValueError, AttributeError) as e:
        ctx.reject(type(e).__name__ + ':' + str(e)[:40])
        return
    except Exception as e:
        ctx.violation('crash', '%s: %s' % (type(e).__name__, e), case)
        return
    with quiet():
        impl_sel = [list(map(int, ok.transform_coords_pair.find_closest(i, ok.range, ok._maxp)))
                    for i in range(len(targets))]
    mr = krig.ModelRun(ctx, case, ok)
    # the observations the interpolation works on: every distinct location once (first occurrence, original order)
    kept = np.asarray(ok.coords.coords, float)
    if kept.shape != mr.coords.shape or not np.array_equal(kept, mr.coords) or \
            not np.array_equal(np.asarray(ok.values, float), mr.values):
        ctx.violation('observations', 'the instance keeps %d observations, the %d given ones contain %d distinct '
                      'locations (first occurrences); first difference at row %s' % (
                          len(kept), len(case['values']), len(mr.coords),
                          next((k for k in range(min(len(kept), len(mr.coords)))
                                if not np.array_equal(kept[k], mr.coords[k])), min(len(kept), len(mr.coords)))), case)
        return
    mr.ask_neighbours()
    ctx.lean.flush()
    ctx.count('model:' + case['vario']['model'])
    ctx.count('sparse' if case['sparse'] else 'dense')
    ctx.count('metric:' + case['vario']['dist_func'])
    ctx.count('solver:' + case['solver'])
    nsets = len({tuple(sorted(s)) for s in impl_sel})
    nanpat = tuple(bool(math.isnan(x)) for x in z)
    nontrivial = nsets >= 2 and not all(nanpat)
    ctx.case(signature=(tuple(tuple(sorted(s)) for s in impl_sel), nanpat) if nontrivial else None,
             stream='krige',
             sample=dict(vario=case['vario'], min_points=case['min_points'], max_points=case['max_points'],
                         n_obs=len(case['values']), n_targets=len(targets), nan=sum(nanpat)))
    for i in range(len(targets)):
        if not admissible(impl_sel[i], mr.sel[i], mr.rows[i]):
            ctx.violation('neighbours', 'target %d: implementation selects %r, model %r (distances %r / %r)' % (
                i, impl_sel[i], mr.sel[i], [float(mr.rows[i][j]) for j in impl_sel[i]],
                [float(mr.rows[i][j]) for j in mr.sel[i]]), case)
            return
        if len(impl_sel[i]) > 1 and len(set(float(mr.rows[i][j]) for j in impl_sel[i])) < len(impl_sel[i]):
            ctx.count('equidistant_neighbours')
    # solve on the implementation's own selection (ties may be broken differently)
    mr.ask_solves(neighbours=impl_sel)
    ctx.lean.flush()
    scale_z = max(1.0, float(np.max(np.abs(case['values']))))
    scale_s = max(1e-12, case['vario']['sill'] + case['vario']['nugget'])
    kinds, zs, gs = [], [], []
    for i in range(len(targets)):
        r = mr.res[i]
        if r == 'less':
            kinds.append('l')
            if not (math.isnan(z[i]) and math.isnan(sigma[i])):
                ctx.violation('min-points', 'target %d has %d < min_points=%d neighbours but z=%r sigma=%r' % (
                    i, len(impl_sel[i]), case['min_points'], z[i], sigma[i]), case)
                return
            continue
        if r == 'singular':
            ctx.count('singular_system')
            kinds.append('s')
            continue
        mz, ms = float(r[0]), float(r[1])
        kinds.append('k')
        zs.append(r[0])
        gs.append(r[1])
        cond = mr.cond.get(i, float('inf'))
        if not math.isfinite(cond) or cond > 1e9:
            ctx.count('skipped_ill_conditioned')
            continue
        tol = 1e-12 * cond
        if math.isnan(z[i]) or abs(z[i] - mz) > tol * scale_z + 1e-9 * scale_z:
            ctx.violation('estimate', 'target %d: implementation %r, exact solution of the kriging system %r '
                          '(neighbours %r, cond %.2g)' % (i, z[i], mz, impl_sel[i], cond), case)
            return
        if math.isnan(sigma[i]) or abs(sigma[i] - ms) > tol * scale_s + 1e-9 * scale_s:
            ctx.violation('variance', 'target %d: implementation sigma %r, exact %r (neighbours %r, cond %.2g)' % (
                i, sigma[i], ms, impl_sel[i], cond), case)
            return
        ctx.count('targets_compared')
    if 's' in kinds:
        return   # degenerate systems: the implementation raises / model rejects (outside the property)

    # bookkeeping model: NaN pattern, alignment of sigma with z, counters
    def cb(f):
        mzs = parse_nums(f[0]) if f[0] else []
        msg = parse_nums(f[1]) if f[1] else []
        pat_z = [m is None for m in mzs]
        pat_s = [m is None for m in msg]
        if pat_z != [bool(math.isnan(x)) for x in z] or pat_s != [bool(math.isnan(x)) for x in sigma]:
            ctx.violation('nan-pattern', 'implementation z NaN at %r, sigma NaN at %r; model z %r sigma %r' % (
                np.where(np.isnan(z))[0].tolist(), np.where(np.isnan(sigma))[0].tolist(),
                [i for i, p in enumerate(pat_z) if p], [i for i, p in enumerate(pat_s) if p]), case)
        elif int(f[2]) != n_less or int(f[3]) != n_sing:
            ctx.violation('counters', 'no_points_error=%d singular_error=%d, model %s / %s' % (
                n_less, n_sing, f[2], f[3]), case)
        elif n_less + n_sing != int(np.sum(np.isnan(z))):
            ctx.violation('counters', 'counters do not add up to the number of NaN results', case)
    ctx.lean.ask(['c07', 'loop', ' '.join(kinds), frs(zs), frs(gs)], cb)

    # the whole call through the end-to-end model (`krigeTransform`: neighbour search, sub-system, exact
    # solve, bookkeeping composed inside Lean) - only when no equidistant tie at the cut was broken
    # differently, because the result then legitimately depends on the choice
    if all(sorted(impl_sel[i]) == sorted(mr.sel[i]) for i in range(len(targets))):
        n = len(mr.coords)
        g = ok.gamma_model
        with quiet():
            D = squareform(pdist(mr.coords, metric=mr.metric)) if n > 1 else np.zeros((1, 1))
            G = np.array([[0.0 if a == b else float(g(D[a, b])) for b in range(n)] for a in range(n)])
            G0 = np.array([[float(g(d)) for d in row] for row in mr.rows])

        def cb2(f):
            mz = parse_nums(f[0]) if f[0] else []
            ms = parse_nums(f[1]) if f[1] else []
            ctx.count('transform_e2e')
            if [m is None for m in mz] != [bool(math.isnan(x)) for x in z] or \
                    [m is None for m in ms] != [bool(math.isnan(x)) for x in sigma] or \
                    int(f[2]) != n_less or int(f[3]) != n_sing:
                ctx.violation('transform-e2e', 'NaN pattern / counters of the whole call differ from the end-to-end '
                              'model: z %r sigma %r counters %d/%d, model %r %r %s/%s' % (
                                  z.tolist(), sigma.tolist(), n_less, n_sing, f[0], f[1], f[2], f[3]), case)
                return
            for i in range(len(targets)):
                cond = mr.cond.get(i, float('inf'))
                if mz[i] is None or not math.isfinite(cond) or cond > 1e9:
                    continue
                tol = 1e-12 * cond + 1e-9
                if abs(z[i] - float(mz[i])) > tol * scale_z or abs(sigma[i] - float(ms[i])) > tol * scale_s:
                    ctx.violation('transform-e2e', 'target %d: implementation (z, sigma) = (%r, %r), end-to-end '
                                  'model (%r, %r)' % (i, z[i], sigma[i], float(mz[i]), float(ms[i])), case)
                    return
        ctx.lean.ask(['c07', 'transform', fr(mr.rng_eff), str(case['min_points']), str(case['max_points']), str(n),
                      frs(G.flatten()), frs(mr.values), frs(mr.rows.flatten()), frs(G0.flatten())], cb2)


def run(ctx):
    for k in range(ctx.n(30, 400)):
        check_case(ctx, krig.gen_case(ctx.rng, nobs=(8, 36) if ctx.tier == 'quick' else (8, 80)))
    ctx.lean.flush()


def replay(ctx, body):
    check_case(ctx, body['case'])
    ctx.lean.flush()
