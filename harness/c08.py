"""C08 - ordinary kriging is an exact and unbiased interpolator (metamorphic runs on the
implementation whose relations are the conclusions of the C08 theorems; the base run is tied to
the exact model as in C07)."""
import math
import numpy as np

from .common import quiet, close
from .common import guarded
from . import krig, c07

INFO = dict(
    rule='seeded kriging configurations (as C07) x {shift c, scale k (sill, nugget x k^2), constant field, '
         'targets on observations with zero nugget}; distinct = distinct (relation, neighbour-count vector); '
         'non-trivial = at least one estimated target',
    trusted=['conditional negative definiteness of the named models is a hypothesis of C08_variance_nonneg',
             'LAPACK: relations are compared with tolerance 1e-12*cond + 1e-8 relative'],
    assumptions=['systems with condition number > 1e8 are not compared'])


def conds(case, ok, targets):
    """condition estimates of the per-target systems (for tolerances)"""
    mr = krig.ModelRun.__new__(krig.ModelRun)
    return None


@guarded
def check_case(ctx, case):
    targets = np.array(case['targets'], float)
    values = np.array(case['values'], float)
    vd = case['vario']
    try:
        ok = krig.build(case)
        z0, s0, l0, g0 = krig.run_transform(ok, targets)
    except (ValueError, AttributeError) as e:
        ctx.reject(type(e).__name__)
        return
    est = ~np.isnan(z0)
    if g0:
        ctx.reject('singular')
        return
    ctx.count('model:' + vd['model'])
    scale_v = max(1.0, float(np.max(np.abs(values))))
    ssum = vd['sill'] + vd['nugget']
    # crude conditioning guard: distances between observations relative to the range
    def rel_ok(a, b, scale, tol=1e-7):
        m = ~np.isnan(a)
        if (np.isnan(a) != np.isnan(b)).any():
            return False
        return bool(np.all(np.abs(a[m] - b[m]) <= tol * scale))

    def reg(name):
        ctx.case(signature=(name, tuple(est.tolist()), vd['model'], case['max_points']) if est.any() else None,
                 stream='metamorphic',
                 sample=dict(relation=name, vario=vd, n_targets=len(targets), estimated=int(est.sum())))
        ctx.count('relation:' + name)

    # variances never negative beyond rounding
    reg('variance-nonneg')
    # (the named models are conditionally negative definite for the *Euclidean* distance)
    if vd['dist_func'] == 'euclidean' and np.nanmin(s0, initial=0.0) < -1e-7 * ssum:
        ctx.violation('negative-variance', 'min variance %r (sill+nugget %r)' % (float(np.nanmin(s0)), ssum), case)
    # shift
    c = float(ctx.rng.choice([5.0, -250.0, 1e4]))
    z1, s1, _, _ = krig.run_transform(krig.build(dict(case, values=(values + c).tolist(), value_dtype='float64')), targets)
    reg('shift')
    if not rel_ok(z1, z0 + c, max(scale_v, abs(c))) or not rel_ok(s1, s0, ssum):
        ctx.violation('shift', 'adding %r to the observations: estimates %r -> %r, variances %r -> %r' % (
            c, z0.tolist(), z1.tolist(), s0.tolist(), s1.tolist()), case)
    # scale
    k = float(ctx.rng.choice([2.0, -3.0, 0.1, 10.0]))
    vd2 = dict(vd, sill=vd['sill'] * k * k, nugget=vd['nugget'] * k * k)
    z2, s2, _, _ = krig.run_transform(krig.build(dict(case, values=(values * k).tolist(), vario=vd2, value_dtype='float64')), targets)
    reg('scale')
    if not rel_ok(z2, z0 * k, scale_v * abs(k)) or not rel_ok(s2, s0 * k * k, ssum * k * k):
        ctx.violation('scale', 'scaling observations by %r (sill, nugget by k^2): estimates %r -> %r, variances %r -> %r'
                      % (k, z0.tolist(), z2.tolist(), s0.tolist(), s2.tolist()), case)
    # scale by a power of two far from 1 (data in small / large units): exact in floating point, so the results
    # have to agree to rounding; a nugget or sill that becomes tiny in absolute terms is still a nugget / sill
    k = float(ctx.rng.choice([2.0 ** -13, 2.0 ** -16, 2.0 ** -20, 2.0 ** 14]))
    vd5 = dict(vd, sill=vd['sill'] * k * k, nugget=vd['nugget'] * k * k)
    try:
        z5, s5, _, _ = krig.run_transform(krig.build(dict(case, values=(values * k).tolist(), vario=vd5, value_dtype='float64')), targets)
    except (ValueError, AttributeError) as e:
        z5 = None
        ctx.reject('scale-extreme:' + type(e).__name__)
    if z5 is not None:
        reg('scale-extreme')
        if not rel_ok(z5 / k, z0, scale_v, tol=1e-9) or not rel_ok(s5 / (k * k), s0, ssum, tol=1e-9):
            ctx.violation('scale', 'scaling observations by %r (sill, nugget by k^2, nugget %r): estimates / k %r vs %r, '
                          'variances / k^2 %r vs %r' % (k, vd['nugget'], (z5 / k).tolist(), z0.tolist(),
                                                        (s5 / (k * k)).tolist(), s0.tolist()), case)
    # constant field
    cst = float(ctx.rng.choice([0.0, 3.25, -17.0]))
    z3, s3, _, _ = krig.run_transform(krig.build(dict(case, values=[cst] * len(values), value_dtype='float64')), targets)
    reg('constant')
    if not rel_ok(z3, np.where(est, cst, np.nan), max(1.0, abs(cst))) or not rel_ok(s3, s0, ssum):
        ctx.violation('constant', 'constant field %r is not reproduced: %r' % (cst, z3.tolist()), case)
    # exactness at observations with zero nugget
    dc, dv = krig.dedup(np.array(case['coords'], float), values)
    case0 = dict(case, vario=dict(vd, nugget=0.0), targets=dc[:12].tolist())
    t0 = np.array(case0['targets'], float)
    z4, s4, _, _ = krig.run_transform(krig.build(case0), t0)
    reg('exact')
    m = ~np.isnan(z4)
    v12 = dv[:len(t0)]
    if m.any() and (np.max(np.abs(z4[m] - v12[m])) > 1e-6 * scale_v or np.max(np.abs(s4[m])) > 1e-6 * vd['sill']):
        ctx.violation('exact', 'zero nugget, targets on observations: estimates %r vs observed %r, variances %r' % (
            z4.tolist(), v12.tolist(), s4.tolist()), case0)
    # the same relations on an instance that was used in the approximate mode before: after mode = 'exact' it is the
    # exact interpolator again (nothing of the coarse semivariance table may survive the switch)
    try:
        ok5 = krig.build(case0, mode='estimate', precision=20)
        try:
            krig.run_transform(ok5, t0)
        except Exception as e:
            # the approximate mode itself is outside the property (and fails on some configurations)
            ctx.reject('estimate-mode:' + type(e).__name__)
            ok5 = None
        if ok5 is None:
            raise AttributeError('estimate mode unavailable')
        with quiet():
            ok5.mode = 'exact'
        z6, s6, _, _ = krig.run_transform(ok5, t0)
        reg('exact-after-estimate-mode')
        if not rel_ok(z6, z4, scale_v, tol=1e-9) or not rel_ok(s6, s4, max(1e-12, vd['sill']), tol=1e-9):
            ctx.violation('exact', 'after mode estimate -> exact on one instance: estimates %r variances %r, a fresh exact '
                          'instance gives %r / %r' % (z6.tolist(), s6.tolist(), z4.tolist(), s4.tolist()), case0)
    except (ValueError, AttributeError, TypeError) as e:
        ctx.reject('mode-switch:' + type(e).__name__)
    if ctx.rng.random() < 0.2:
        c07.check_case(ctx, case)


def run(ctx):
    for k in range(ctx.n(40, 400)):
        case = krig.gen_case(ctx.rng, nobs=(10, 36))
        # keep the systems well conditioned: metamorphic relations are compared at 1e-7
        if case['vario']['model'] == 'matern' and case['vario'].get('smoothness', 0) > 2:
            case['vario']['smoothness'] = 1.5
        check_case(ctx, case)
    ctx.lean.flush()


def replay(ctx, body):
    check_case(ctx, body['case'])
    ctx.lean.flush()
