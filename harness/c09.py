"""C09 - kriging results do not depend on how the computation is carried out."""
import math
import numpy as np
from skgstat import MetricSpace

from .common import quiet
from .common import guarded
from . import krig, c07

INFO = dict(
    rule='seeded kriging configurations x solver {inv, numpy, scipy} x sparse (bounded models) x targets as '
         'arrays / MetricSpace x random partitions and permutations of the target set x repeated calls on one '
         'instance; distinct = distinct (route, NaN pattern, neighbour sizes); non-trivial = at least one '
         'estimated target',
    trusted=['agreement of the LAPACK paths is numeric (1e-7 relative to the data scale)'],
    assumptions=[])


def same(a, b, scale, tol=1e-7):
    if (np.isnan(a) != np.isnan(b)).any():
        return False
    m = ~np.isnan(a)
    return bool(np.all(np.abs(a[m] - b[m]) <= tol * scale))


@guarded
def check_case(ctx, case):
    targets = np.array(case['targets'], float)
    values = np.array(case['values'], float)
    vd = case['vario']
    scale_v = max(1.0, float(np.max(np.abs(values))))
    ssum = vd['sill'] + vd['nugget']
    try:
        ok = krig.build(case)
        z0, s0, l0, g0 = krig.run_transform(ok, targets)
    except (ValueError, AttributeError) as e:
        ctx.reject(type(e).__name__)
        return
    if g0:
        ctx.reject('singular')
        return
    est = ~np.isnan(z0)

    def reg(name):
        ctx.case(signature=(name, tuple(est.tolist()), vd['model'], case['max_points'], case['min_points']) if est.any() else None,
                 stream='routes', sample=dict(route=name, vario=vd, n_targets=len(targets), estimated=int(est.sum())))
        ctx.count('route:' + name)

    def cmp(name, z, s, l=None):
        reg(name)
        if not same(z, z0, scale_v) or not same(s, s0, ssum) or (l is not None and l != l0):
            ctx.violation('route-' + name.split(':')[0], '%s: estimates %r vs %r; variances %r vs %r; no_points %r vs %r' % (
                name, z.tolist(), z0.tolist(), s.tolist(), s0.tolist(), l, l0), dict(case, route=name))

    # repeated call on the same instance
    z, s, l, _ = krig.run_transform(ok, targets)
    cmp('repeat', z, s, l)
    # other solvers
    for solver in ('inv', 'numpy', 'scipy'):
        if solver != case['solver']:
            z, s, l, _ = krig.run_transform(krig.build(case, solver=solver), targets)
            cmp('solver:' + solver, z, s, l)
    # sparse vs dense (bounded-range models, euclidean)
    if vd['model'] in krig.BOUNDED and vd['dist_func'] == 'euclidean':
        z, s, l, _ = krig.run_transform(krig.build(case, sparse=not case['sparse']), targets)
        cmp('sparse:%s' % (not case['sparse']), z, s, l)
    # targets as MetricSpace
    ms = MetricSpace(targets.copy(), vd['dist_func'], vd['effective_range'] if case['sparse'] else None)
    with quiet():
        okm = krig.build(case)
        zm = np.asarray(okm.transform(ms), float)
        sm = np.asarray(okm.sigma, float)
    cmp('metricspace-targets', zm, sm, int(okm.no_points_error))
    # permutation
    perm = ctx.rng.permutation(len(targets))
    okp = krig.build(case)
    zp, sp, lp, _ = krig.run_transform(okp, targets[perm])
    inv = np.argsort(perm)
    cmp('permutation', zp[inv], sp[inv], lp)
    # random partition into batches, same instance, consecutive calls
    cuts = sorted(set(int(x) for x in ctx.rng.integers(1, len(targets), size=2)))
    parts = np.split(np.arange(len(targets)), cuts)
    okb = krig.build(case)
    zb, sb, lb = [], [], 0
    for part in parts:
        if len(part) == 0:
            continue
        zz, ss, ll, _ = krig.run_transform(okb, targets[part])
        zb.append(zz)
        sb.append(ss)
        lb += ll
    cmp('batches:%d' % len(parts), np.concatenate(zb), np.concatenate(sb), lb)
    # interleaved: another target set in between must not leave anything behind
    oki = krig.build(case)
    krig.run_transform(oki, targets[::-1][: max(1, len(targets) // 2)] + 1.0)
    zi, si, li, _ = krig.run_transform(oki, targets)
    cmp('after-other-call', zi, si, li)
    if ctx.rng.random() < 0.15:
        c07.check_case(ctx, case)


def run(ctx):
    for k in range(ctx.n(40, 400)):
        check_case(ctx, krig.gen_case(ctx.rng, nobs=(10, 36)))
    ctx.lean.flush()


def replay(ctx, body):
    check_case(ctx, body['case'])
    ctx.lean.flush()
