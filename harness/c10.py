"""C10 - invariances of the experimental variogram (metamorphic runs on the implementation; the
transformed instances are additionally pushed through the C01 model correspondence)."""
import math
import numpy as np

from .common import all_close, quiet
from .common import guarded
from skgstat import Variogram
from . import vario, c01

INFO = dict(
    rule='seeded base configurations x {permutation, integer/real translation, rotation, reflection, '
         'axis swap, value shift, value scale, coordinate scale}; exact transforms (permutation, '
         'reflection, swap, lattice translation, powers of two) are compared without margin, inexact '
         'ones only when no distance lies within 1e-9 (relative) of a lag edge or of maxlag; '
         'distinct = distinct (transform, group signature); non-trivial = at least 2 non-empty classes',
    trusted=['k-means / ward binning only under exact transforms (back-end rounding)'],
    assumptions=['transformed-distance ties at lag edges are excluded as the property allows'],
)

EXACT_BINNINGS = ['even', 'uniform', 'kmeans', 'ward', 'sturges', 'scott', 'fd', 'sqrt', 'doane']
SMOOTH_BINNINGS = ['even', 'uniform', 'sturges', 'sqrt']


def observe(case):
    V = vario.build(case)
    with quiet():
        return (np.asarray(V.bins, float), np.asarray(V.bin_count), np.asarray(V.experimental, float),
                np.asarray(V.distance, float), V)


def margin_ok(d, edges, maxlag_abs, tol=1e-9, maxlag_derived=False):
    """no pair can change its class or drop out under a transform that moves distances by rounding"""
    edges = np.asarray(list(edges), float)
    ok = True
    if len(edges):
        rel = np.abs(d[:, None] - edges[None, :]) / np.maximum(1.0, np.abs(edges[None, :]))
        near = rel <= tol
        # a single pair sitting exactly on an edge is the pair the edge was derived from (largest distance, a quantile):
        # after an inexact transform the edge moves with it. Near misses and tied pairs can flip.
        single_exact = (near.sum(axis=0) == 1) & ((rel == 0).sum(axis=0) == 1)
        single_exact[:-1] = False      # inner edges are not derived from one pair: an exact hit there is a coincidence
        ok = bool(np.all((near.sum(axis=0) == 0) | single_exact))
    if ok and maxlag_abs is not None:
        relm = np.abs(d - maxlag_abs) / max(1.0, abs(maxlag_abs))
        nearm = relm <= tol
        # a maximum lag given by the caller does not move with the data; one derived from it (unset, 'median') does
        ok = bool(nearm.sum() == 0 or (maxlag_derived and nearm.sum() == 1 and (relm == 0).sum() == 1))
    return ok


def transforms(rng, case, coords, values):
    """yield (name, exact, new_coords, new_values, edge_scale, exp_scale[, base_values])"""
    n, dim = coords.shape
    lattice = case['kind'] == 'lattice'
    perm = rng.permutation(n)
    yield 'permute', True, coords[perm], values[perm], 1.0, 1.0
    t = rng.integers(-50, 50, size=dim).astype(float)
    yield 'translate_int', lattice, coords + t, values, 1.0, 1.0
    t = rng.uniform(-1000, 1000, size=dim)
    yield 'translate_real', False, coords + t, values, 1.0, 1.0
    # an offset far larger than the extent of the point cloud (projected coordinates): exact on coordinates quantised
    # to multiples of 2^-6, so every coordinate difference - hence every distance - is bit-identical
    cq = np.round(coords * 64.0) / 64.0
    if len(np.unique(cq, axis=0)) == len(np.unique(coords, axis=0)):
        T = np.array([float(rng.choice([2.0 ** 19, 5.0e5, 2.0 ** 22, 5.4e6, 2.0 ** 24])) for _ in range(dim)])
        yield 'translate_large', True, cq + T, values, 1.0, 1.0, dict(coords=cq)
    refl = coords.copy()
    refl[:, 0] = -refl[:, 0]
    yield 'reflect', True, refl, values, 1.0, 1.0
    if dim >= 2:
        # reversing the axis order re-associates the sum of squares for more than two axes: exact only in 2-D
        yield 'swap_axes', dim == 2, coords[:, ::-1].copy(), values, 1.0, 1.0
        phi = rng.uniform(0, 2 * math.pi)
        R = np.eye(dim)
        R[0, 0], R[0, 1], R[1, 0], R[1, 1] = math.cos(phi), -math.sin(phi), math.sin(phi), math.cos(phi)
        yield 'rotate', False, coords @ R.T, values, 1.0, 1.0
        r90 = coords.copy()
        r90[:, 0] = -coords[:, 1]
        r90[:, 1] = coords[:, 0]
        yield 'rotate90', True, r90, values, 1.0, 1.0
    c = float(rng.choice([8.0, -3.0, 1024.0]))
    yield 'shift_values', case_values_int(values), coords, values + c, 1.0, 1.0
    # a constant far larger than the spread of the observations / factors far from 1: exact on values
    # quantised to multiples of 2^-10, so no tolerance hides a result that merely "looks constant"
    vq = np.round(values * 1024.0) / 1024.0
    c = float(rng.choice([2.0 ** 20, -2.0 ** 30, 2.0 ** 36, 1.0e6]))
    yield 'shift_values_large', True, coords, vq + c, 1.0, 1.0, vq
    k = float(rng.choice([2.0 ** -40, 2.0 ** -24, 2.0 ** 40, -2.0 ** 25]))
    yield 'scale_values_extreme', True, coords, vq * k, 1.0, k * k, vq
    k = float(rng.choice([2.0, -4.0, 0.5]))
    yield 'scale_values_pow2', True, coords, values * k, 1.0, k * k
    k = float(rng.choice([3.0, -1.7, 0.1]))
    yield 'scale_values', False, coords, values * k, 1.0, k * k
    ml = case['kw']['maxlag']
    if ml is None or isinstance(ml, str) or (isinstance(ml, float) and ml < 1):
        # relative / unset maxlag (incl. 'median', 'mean'); small factors make the resolved maxlag < 1
        s = float(rng.choice([2.0, 0.25, 16.0]))
        yield 'scale_coords_pow2', True, coords * s, values, s, 1.0
        s = float(rng.choice([1.0 / 256, 1.0 / 4096]))
        yield 'scale_coords_pow2_small', True, coords * s, values, s, 1.0
        s = float(rng.choice([3.0, 0.37, 11.0, 0.001]))
        yield 'scale_coords', False, coords * s, values, s, 1.0


def case_values_int(values):
    return bool(np.all(values == np.round(values)))


@guarded
def check_base(ctx, case):
    est = case['kw']['estimator']
    binf = case['kw']['bin_func']
    try:
        e0, c0, x0, d0, V0 = observe(case)
    except (ValueError, AttributeError, RuntimeError) as e:
        ctx.reject(type(e).__name__)
        return
    if np.any(np.diff(np.concatenate(([0.0], e0))) < 0):
        ctx.reject('edges-not-monotone')
        return
    coords = np.array(case['coords'], float)
    values = np.array(case['values'], float)
    ml = case['kw']['maxlag']
    ml_abs = V0.maxlag
    within = np.sort(d0[d0 <= ml_abs * (1 + 1e-9)]) if ml_abs is not None else np.sort(d0)
    if len(within) < 2 or within[-1] - within[0] <= 1e-9 * max(1.0, within[-1]):
        ctx.reject('fewer-than-2-distinct-distances-within-maxlag')   # outside C02's precondition
        return
    nonempty = int(np.sum(c0 > 0))
    base0 = (e0, c0, x0)
    for tr in transforms(ctx.rng, case, coords, values):
        (name, exact, nc, nv, escale, xscale) = tr[:6]
        e0, c0, x0 = base0
        if len(tr) > 6:
            # the relation is checked against a base with the (quantised) values / coordinates given by the transform
            over = tr[6] if isinstance(tr[6], dict) else dict(values=tr[6])
            try:
                e0, c0, x0, _, _ = observe(dict(case, dtype='float64', coord_dtype='float64',
                                                 **{k: v.tolist() for k, v in over.items()}))
            except (ValueError, AttributeError, RuntimeError) as e:
                ctx.reject(type(e).__name__)
                continue
        clustering = binf in ('kmeans', 'ward')
        if clustering and not exact:
            continue
        if not exact and binf not in SMOOTH_BINNINGS and name.startswith(('rotate', 'translate', 'scale_coords', 'swap_axes')):
            # rule-based bin counts may flip on 1-ulp changes of the data range
            continue
        if not exact and name in ('translate_int', 'translate_real', 'rotate', 'scale_coords', 'swap_axes') and \
                not margin_ok(d0, e0, ml_abs, maxlag_derived=(ml is None or ml == 'median')):
            ctx.count('skipped_edge_tie')
            continue
        tc = dict(case, coords=nc.tolist(), values=nv.tolist(), coord_dtype='float64')
        if name.startswith(('shift_values', 'scale_values')):
            tc['dtype'] = 'float64'      # the transformed values need not be representable in the base dtype
        if name.startswith('scale_coords') and isinstance(ml, str):
            pass
        try:
            e1, c1, x1, d1, V1 = observe(tc)
        except (ValueError, AttributeError, RuntimeError) as e:
            ctx.violation('transform-crash', '%s: %s after %s' % (type(e).__name__, e, name), dict(tc, transform=name))
            continue
        ctx.count('transform:' + name)
        ctx.case(signature=(name, tuple(c0.tolist()), est, str(binf)) if nonempty >= 2 else None,
                 stream='metamorphic',
                 sample=dict(transform=name, bin_func=str(binf), estimator=est, counts=c0.tolist()))
        tol_e = 1e-12 if exact else 1e-9
        tol_x = 1e-9
        if name == 'shift_values' and not exact:
            # |v_i+c - (v_j+c)| is rounded: absolute error ~ ulp(c) on each difference
            tol_x = 1e-6
        bad = None
        if len(e1) != len(e0) or not all_close(e1, e0 * escale, rel=tol_e):
            bad = ('edges', e0.tolist(), e1.tolist())
        elif c1.tolist() != c0.tolist():
            bad = ('bin_count', c0.tolist(), c1.tolist())
        elif not all_close(x1 / xscale, x0, rel=tol_x):      # compared at the scale of the base
            bad = ('experimental', (x0 * xscale).tolist(), x1.tolist())
        if bad and clustering:
            # the clustering back-end is not bit-reproducible on tie-heavy data (multi-threaded sums): if
            # two constructions from the *same* input already differ, this is not an invariance violation
            again = [observe(case) for _ in range(3)] + [observe(tc) for _ in range(3)]
            if any(not all_close(a[0], again[0][0], rel=0) for a in again[1:3]) or \
                    any(not all_close(a[0], again[3][0], rel=0) for a in again[4:]) or \
                    not all_close(again[0][0], e0, rel=0):
                ctx.count('clustering_backend_not_reproducible')
                bad = None
        if bad:
            sig = dict(kind='metamorphic', transform=name, bin_func=str(binf), what=bad[0])
            ctx.violation('invariance-' + name, '%s changed under %s (bin_func=%s, estimator=%s): expected %r, got %r'
                          % (bad[0], name, binf, est, bad[1], bad[2]), dict(tc, transform=name, base=case),
                          signature=sig)
        # the same relation on an instance whose observations are replaced in place (it had computed everything for the
        # old ones): the result is the one of the instance built from the new observations
        if not bad and len(tr) == 6 and name.startswith(('shift_values', 'scale_values')) and not clustering:
            try:
                Vb = vario.build(dict(case, dtype='float64'))
                with quiet():
                    np.asarray(Vb.experimental)
                    if ctx.rng.random() < 0.5:
                        Vb.values = nv.copy()
                        how = 'values setter'
                    else:
                        Vb.set_values(nv.copy(), calc_diff=bool(ctx.rng.random() < 0.5))
                        how = 'set_values'
                    e2, c2, x2 = np.asarray(Vb.bins, float), np.asarray(Vb.bin_count), np.asarray(Vb.experimental, float)
            except (ValueError, AttributeError, RuntimeError) as e:
                ctx.reject('in-place:' + type(e).__name__)
                continue
            ctx.count('in_place:' + name)
            if len(e2) != len(e1) or not all_close(e2, e1, rel=1e-12) or c2.tolist() != c1.tolist() or \
                    not all_close(x2, x1, rel=1e-9):
                ctx.violation('invariance-' + name + '-in-place', 'after replacing the observations of a computed instance (%s) by '
                              'the transformed ones: edges %r counts %r experimental %r, an instance built from them gives %r %r %r'
                              % (how, e2.tolist(), c2.tolist(), x2.tolist(), e1.tolist(), c1.tolist(), x1.tolist()),
                              dict(tc, transform=name, base=case), signature=dict(kind='metamorphic-in-place', transform=name))
    # tie the (permuted) instance to the model as well
    if ctx.rng.random() < 0.25:
        perm = ctx.rng.permutation(len(values))
        c01.check_case(ctx, dict(case, coords=coords[perm].tolist(), values=values[perm].tolist()))   # keeps the dtype


@guarded
def check_big(ctx, binf=None):
    """a data set large enough (> 50 000 pairs) for size-dependent code paths of the clustering binnings: reordering the
    points leaves edges, counts and semivariances unchanged"""
    rng = ctx.rng
    n = int(rng.integers(320, 345))
    coords = rng.uniform(0, 100, size=(n, 2))
    values = np.sin(coords[:, 0] / 17.0) * 3 + rng.normal(0, 0.5, size=n)
    binf = binf or str(rng.choice(['kmeans', 'ward', 'uniform']))
    kw = dict(n_lags=int(rng.integers(5, 10)), bin_func=binf, estimator='matheron', maxlag=None, fit_method=None)
    if binf == 'ward':
        kw['maxlag'] = 0.35        # keeps the agglomerative clustering affordable
    perm = rng.permutation(n)
    case = dict(coords=coords.tolist(), values=values.tolist(), kw=kw, big=True, perm=perm.tolist())
    try:
        with quiet():
            A = Variogram(coords, values, **kw)
            a = (np.asarray(A.bins, float), np.asarray(A.bin_count), np.asarray(A.experimental, float))
            B = Variogram(coords[perm], values[perm], **kw)
            b = (np.asarray(B.bins, float), np.asarray(B.bin_count), np.asarray(B.experimental, float))
    except ValueError as e:
        ctx.reject('big:' + str(e)[:40])
        return
    ctx.count('big_permutation:' + binf)
    ctx.case(signature=('big', binf, tuple(a[1].tolist())), stream='metamorphic-large')
    if not (all_close(a[0], b[0], rel=1e-9) and a[1].tolist() == b[1].tolist() and all_close(a[2], b[2], rel=1e-9)):
        ctx.violation('invariance-permute', '%d points, bin_func=%s: reordering the points changes edges %r -> %r, counts %r -> %r'
                      % (n, binf, a[0].tolist(), b[0].tolist(), a[1].tolist(), b[1].tolist()), case,
                      signature=dict(kind='metamorphic', transform='permute-large', bin_func=binf))


def run(ctx):
    for k in range(ctx.n(1, 6)):
        check_big(ctx, 'kmeans' if k == 0 else None)
    for k in range(ctx.n(70, 1500)):
        case = vario.gen_case(ctx.rng, nmax=32 if ctx.tier == 'quick' else 55, allow_custom=False,
                              metrics=['euclidean'], dims=(2, 2, 3, 1),
                              binnings=['even', 'even', 'even', 'uniform', 'uniform'] + vario.BINNINGS[2:])
        check_base(ctx, case)
    ctx.lean.flush()


def replay(ctx, body):
    base = body['case'].get('base') or body['case']
    check_base(ctx, base)
    ctx.lean.flush()
