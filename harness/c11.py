"""C11 - how distances are supplied never changes the variogram.

The same points / values / metric / maximum lag are pushed through raw coordinates (dense),
a shared dense MetricSpace, and an absolute maxlag on raw coordinates (sparse cKDTree matrix);
edges, counts and semivariances must coincide.  The Lean model (`countOf`/`expOf` on records,
`effMax`) is run on the dense and on the stored records and both are compared with the
implementation.
"""
import numpy as np
from skgstat import Variogram, MetricSpace

from .common import all_close, quiet, frs, parse_nums
from .common import guarded
from . import vario

INFO = dict(
    rule='seeded point sets (uniform, clustered, lattice, duplicates) x binning {even, uniform, kmeans, '
         'ward, sturges} x estimators x absolute maxlag below / at / above the largest distance; '
         'each evaluated through 3 storage routes; distinct = distinct (route pair, count vector); '
         'non-trivial = at least 2 non-empty classes',
    trusted=['cKDTree boundary decisions for a maxlag within rounding distance of an occurring '
             'irrational distance are outside the property (generator uses exactly representable ties)'],
    assumptions=[],
)


def observe(V):
    with quiet():
        return (np.asarray(V.bins, float), np.asarray(V.bin_count), np.asarray(V.experimental, float))


@guarded
def check_case(ctx, case):
    kw = dict(case['kw'])
    coords = np.array(case['coords'], float)
    values = np.array(case['values'], float)
    # the value vector may come in any numeric dtype (e.g. 8-bit image data)
    dt = case.get('dtype', 'float64')
    if dt != 'float64':
        values = np.round(values * 10).astype(dt) if dt.startswith('uint') else np.round(values).astype(dt)
    M = kw['maxlag']
    assert isinstance(M, float) and M >= 1
    kw['fit_method'] = None
    try:
        with quiet():
            Vs = Variogram(coords, values, **kw)                       # sparse
            buf_ = coords.copy()
            ms = MetricSpace(buf_, kw['dist_func'])             # dense, shared
            vario.recycle(buf_)
            Vd = Variogram(ms, values, **kw)
            Vd2 = Variogram(ms, values, **kw)                          # second user of the same space
        if kw['dist_func'] != 'euclidean':
            # other metrics: an absolute maxlag on raw coordinates vs a dense MetricSpace of the same metric (how
            # the distances are stored for them is the implementation's choice - the results must not depend on it)
            es, cs, xs = observe(Vs)
            ed, cd, xd = observe(Vd)
            ctx.count('metric:' + kw['dist_func'])
            ctx.case(signature=('raw-vs-metricspace', kw['dist_func'], tuple(cd.tolist())), stream='storage-routes',
                     sample=dict(kw={k: v for k, v in kw.items()}, n=len(values)))
            dn = np.asarray(Vd.distance, float)
            if len(np.unique(dn[dn <= M * (1 + 1e-12)])) >= 2 and vario.is_sparse(Vs) is False and \
                    not (all_close(es, ed, rel=1e-12) and cs.tolist() == cd.tolist() and all_close(xs, xd, rel=1e-9)):
                ctx.violation('raw-vs-metricspace', 'dist_func=%r, maxlag=%r: raw coordinates give edges %r counts %r, a '
                              'MetricSpace of the same metric edges %r counts %r' % (
                                  kw['dist_func'], M, es.tolist(), cs.tolist(), ed.tolist(), cd.tolist()), case)
            elif len(np.unique(dn[dn <= M * (1 + 1e-12)])) >= 2 and vario.is_sparse(Vs):
                # a truncated store for this metric: counts / semivariances of every class must still be those of
                # all pairs within the class (edges may end at the largest stored distance: D9)
                ds_ = np.asarray(Vs.distance, float)
                inside = int(np.sum(dn <= M * (1 - 1e-12)))
                if len(ds_) < inside:
                    ctx.violation('raw-vs-metricspace', 'dist_func=%r, maxlag=%r: only %d of the %d pairs within the maximum '
                                  'lag enter the variogram built from raw coordinates' % (kw['dist_func'], M, len(ds_), inside), case)
                    return
                want = [int(np.sum((dn >= lo) & (dn < hi))) for lo, hi in zip(np.concatenate(([0.0], es[:-1])), es)]
                near = np.min(np.abs(dn[:, None] - es[None, :]) / np.maximum(1.0, np.abs(es[None, :]))) if len(es) else 1.0
                if (near > 1e-12 or case['kind'] == 'lattice') and want != cs.tolist():
                    ctx.violation('raw-vs-metricspace', 'dist_func=%r, maxlag=%r (truncated store): pairs per class %r, all '
                                  'pairs within the classes %r' % (kw['dist_func'], M, cs.tolist(), want), case)
            return
        if not vario.is_sparse(Vs):
            ctx.reject('not-sparse')
            return
        es, cs, xs = observe(Vs)
        ed, cd, xd = observe(Vd)
        ed2, cd2, xd2 = observe(Vd2)
    except ValueError as e:
        ctx.reject('ValueError:' + str(e)[:40])
        return
    ctx.count('bin:' + kw['bin_func'])
    ctx.count('maxlag:' + case['maxlag_form'])
    ctx.count('coords:' + case['kind'])
    ctx.count('dtype:' + dt)
    nonempty = int(np.sum(cd > 0))
    ctx.case(signature=('sparse-vs-dense', tuple(cd.tolist()), kw['bin_func'], kw['estimator']) if nonempty >= 2 else None,
             stream='storage-routes',
             sample=dict(kw={k: v for k, v in kw.items()}, n=len(values), dense_edges=ed.tolist()[:4], sparse_edges=es.tolist()[:4]))
    if not (all_close(ed2, ed, rel=0) and cd2.tolist() == cd.tolist() and all_close(xd2, xd, rel=0)):
        ctx.violation('shared-metricspace', 'two variograms on one MetricSpace differ', case)
    # the truncated store survives in-place changes: lower the maximum lag, assign the distance function again (the
    # metric space is re-created), raise the maximum lag back - the result is that of the untouched instance
    try:
        with quiet():
            Vq = Variogram(coords, values, **kw)
            Vq.maxlag = max(1.0, float(M) * 0.5)
            observe(Vq)
            Vq.set_dist_function(kw['dist_func'])
            Vq.maxlag = M
            eq, cq, xq = observe(Vq)
        ctx.count('maxlag_down_distfunc_maxlag_up')
        if not (all_close(eq, es, rel=1e-12) and cq.tolist() == cs.tolist() and all_close(xq, xs, rel=1e-9)):
            ctx.violation('storage-after-setters', 'maxlag %r -> %r, dist_function re-assigned, maxlag -> %r on one instance: edges '
                          '%r counts %r; the untouched instance gives edges %r counts %r' % (
                              M, max(1.0, float(M) * 0.5), M, eq.tolist(), cq.tolist(), es.tolist(), cs.tolist()), case)
    except ValueError as e:
        ctx.reject('setters-ValueError:' + str(e)[:40])
    # a MetricSpace handed over *before* its distances were ever computed, used first with a smaller absolute
    # maxlag and then with this one / with none: earlier users must not change what later users see
    try:
        with quiet():
            buf_ = coords.copy()
            lazy = MetricSpace(buf_, kw['dist_func'])
            vario.recycle(buf_)
            small = max(1.0, float(M) * 0.5)
            observe(Variogram(lazy, values, **dict(kw, maxlag=small)))
            el, cl, xl = observe(Variogram(lazy, values, **kw))
            kw_none = dict(kw, maxlag=None)
            en, cn, xn = observe(Variogram(lazy, values, **kw_none))
            en0, cn0, xn0 = observe(Variogram(coords, values, **kw_none))
        ctx.count('lazy_shared_metricspace')
        if not (all_close(el, ed, rel=1e-12) and cl.tolist() == cd.tolist() and all_close(xl, xd, rel=1e-9)):
            ctx.violation('shared-metricspace', 'a MetricSpace first used with maxlag=%r gives, for maxlag=%r, edges %r '
                          'counts %r; a MetricSpace of its own gives edges %r counts %r' % (
                              small, M, el.tolist(), cl.tolist(), ed.tolist(), cd.tolist()), case)
        elif not (all_close(en, en0, rel=1e-12) and cn.tolist() == cn0.tolist() and all_close(xn, xn0, rel=1e-9)):
            ctx.violation('shared-metricspace', 'a MetricSpace first used with maxlag=%r gives, without maxlag, edges %r '
                          'counts %r; raw coordinates give edges %r counts %r' % (
                              small, en.tolist(), cn.tolist(), en0.tolist(), cn0.tolist()), case)
    except ValueError as e:
        ctx.reject('lazy-ValueError:' + str(e)[:40])
    dall = np.asarray(Vd.distance, float)
    dstored = np.asarray(Vs.distance, float)
    if len(np.unique(dall[dall <= M * (1 + 1e-12)])) < 2:
        ctx.reject('fewer-than-2-distinct-distances-within-maxlag')     # degenerate, outside C02's precondition
        return
    if not (all_close(es, ed, rel=1e-12) and cs.tolist() == cd.tolist() and all_close(xs, xd, rel=1e-9)):
        # defect model D9: the sparse pipeline behaves like a dense one whose maxlag is the largest
        # stored distance
        eq_defect = False
        try:
            kw2 = dict(kw, maxlag=float(dstored.max()))
            if kw2['maxlag'] >= 1:
                with quiet():
                    Vdef = Variogram(ms, values, **kw2)
                edf, cdf, xdf = observe(Vdef)
                eq_defect = all_close(es, edf, rel=1e-12) and cs.tolist() == cdf.tolist() and all_close(xs, xdf, rel=1e-9)
        except ValueError:
            pass
        between = bool(dstored.max() < M * (1 - 1e-12) and dall.max() > M)
        same_edges_counts = all_close(es, ed, rel=1e-12) and cs.tolist() == cd.tolist()
        ctx.violation('sparse-vs-dense', 'maxlag=%r, values dtype %s: dense edges %r counts %r exp %r, sparse edges %r counts %r exp %r' % (
            M, dt, ed.tolist(), cd.tolist(), xd.tolist()[:4], es.tolist(), cs.tolist(), xs.tolist()[:4]), case,
            signature=dict(kind='sparse-last-edge' if not same_edges_counts else 'sparse-semivariance',
                           maxlag_between_distances=between, equals_defect_model=bool(eq_defect), dtype=dt))

    # model tie: counts on stored vs all records for the implementation's sparse edges
    if kw['estimator'] == 'matheron' and len(dall) <= 800:
        diffs_d = np.asarray(Vd.pairwise_diffs, float)
        diffs_s = np.asarray(Vs.pairwise_diffs, float)

        def cb(f, which, want):
            m = parse_nums(f[0]) if f[0] else []
            if not all_close(m, want.tolist(), rel=1e-9):
                ctx.violation('model-' + which, 'implementation %r, model %r' % (want.tolist(), m), case)
        ctx.lean.ask(['c01', 'exp', 'matheron', frs(es), frs(dall), frs(diffs_d)],
                     lambda f: cb(f, 'dense-records-at-sparse-edges', xs))
        ctx.lean.ask(['c01', 'exp', 'matheron', frs(es), frs(dstored), frs(diffs_s)],
                     lambda f: cb(f, 'stored-records', xs))


def gen(ctx):
    rng = ctx.rng
    while True:
        case = vario.gen_case(rng, nmax=30 if ctx.tier == 'quick' else 50, allow_custom=False,
                              metrics=['euclidean', 'euclidean', 'euclidean', 'cityblock', 'chebyshev', 'chebyshev'],
                              binnings=['even', 'uniform', 'kmeans', 'ward', 'sturges'],
                              kinds=['uniform', 'clustered', 'lattice', 'lattice', 'dup'])
        M = case['kw']['maxlag']
        if isinstance(M, float) and M >= 1 and case['storage'] == 'raw':
            case['dtype'] = str(rng.choice(['float64', 'float64', 'float64', 'uint8', 'int32', 'float32']))
            return case


def run(ctx):
    for k in range(ctx.n(90, 1200)):
        check_case(ctx, gen(ctx))
    ctx.lean.flush()


def replay(ctx, body):
    check_case(ctx, body['case'])
    ctx.lean.flush()
