"""C12 - directional variograms use exactly the point pairs inside the search area."""
import math
import numpy as np

import skgstat
from skgstat import DirectionalVariogram, binning

from .common import quiet, floatbits, parse_floatbits, frs, parse_nums, parse_ints, all_close, close, gen_coords, gen_values
from .common import guarded

INFO = dict(
    rule='seeded 2-D point sets (uniform, clustered, lattice) x azimuth in [-180,180] x tolerance in [0,360] x '
         'bandwidth (number incl. larger than every distance, quantile string) x compass/triangle x n_lags x '
         'estimator x binning; pairs within 1e-9 of the tolerance / bandwidth boundary are excluded; distinct = '
         'distinct (mask vector, model); non-trivial = at least one pair selected and one rejected',
    trusted=['numpy arccos / sin vs Lean Float.acos / sin may differ in the last ulp (boundary exclusion covers it)'],
    assumptions=['the fit is disabled in the harness subclass; everything else is the real class'])


class DV(DirectionalVariogram):
    """the real class with the model fit switched off (C12 is about the experimental variogram)"""

    def fit(self, force=False, **k):
        # as the real fit(): preprocessing, but no curve fitting
        self.preprocessing(force=force)
        return None


def available():
    try:
        with quiet():
            DV(np.random.default_rng(0).uniform(0, 10, (12, 2)), np.arange(12.0))
        return None
    except Exception as e:
        return e


def gen(ctx):
    rng = ctx.rng
    kind = str(rng.choice(['uniform', 'clustered', 'lattice']))
    n = int(rng.integers(8, 34))
    coords = np.unique(gen_coords(rng, n, dim=2, kind=kind), axis=0)
    rng.shuffle(coords, axis=0)
    if rng.random() < 0.3:
        # co-located observations: such a pair has no direction, it belongs to no sector whatever the azimuth
        k = int(rng.integers(1, 4))
        coords = np.vstack([coords, coords[rng.integers(0, len(coords), size=k)]])
        rng.shuffle(coords, axis=0)
    values = gen_values(rng, coords, str(rng.choice(['field', 'int'])))
    az = float(rng.choice([0, 45, 90, 135, 180, -180, -90, -45, 30, rng.uniform(-180, 180)]))
    tol = float(rng.choice([0, 10, 22.5, 45, 90, 180, 270, 360, rng.uniform(0, 360)]))
    model = str(rng.choice(['compass', 'triangle']))
    from scipy.spatial.distance import pdist
    dmax = float(pdist(coords).max())
    bw = rng.choice(['q33', 'q10', 'q75', 'num', 'num', 'huge', 'wide', 'wide'])
    if bw == 'num':
        bw = float(rng.uniform(0.05, 0.9) * dmax)
    elif bw == 'wide':
        # wider than the largest distance but still binding: the limit is bandwidth / 2
        bw = float(rng.uniform(1.02, 1.95) * dmax)
    elif bw == 'huge':
        bw = float(dmax * 3)
    else:
        bw = str(bw)
    return dict(coords=coords.tolist(), values=values.tolist(), azimuth=az, tolerance=tol, bandwidth=bw,
                directional_model=model, n_lags=int(rng.integers(2, 9)), estimator=str(rng.choice(['matheron', 'dowd'])),
                bin_func=str(rng.choice(['even', 'uniform'])), kind=kind,
                # raster / pixel indices: integer lattices also come as (unsigned) integer or float32 arrays
                coord_dtype=str(rng.choice(['float64', 'uint8', 'uint16', 'int16', 'int64', 'float32']))
                if kind == 'lattice' else 'float64',
                then_metric=str(rng.choice(['', '', 'cityblock', 'chebyshev'])),
                # a maximum lag (relative forms: the distance vector stays dense), and a later re-assignment on the
                # computed instance: the search area does not depend on it, the pairs taking part do
                maxlag=[None, None, None, 0.5, 0.75, 'median', 'mean'][int(rng.integers(0, 7))],
                then_maxlag=[None, 0.9, 'mean', 'keep', 'keep'][int(rng.integers(0, 5))])


def build(case, **over):
    kw = dict(azimuth=case['azimuth'], tolerance=case['tolerance'], bandwidth=case['bandwidth'],
              directional_model=case['directional_model'], n_lags=case['n_lags'], estimator=case['estimator'],
              bin_func=case['bin_func'], maxlag=case.get('maxlag'))
    kw.update(over)
    with quiet():
        return DV(np.array(case['coords'], float).astype(case.get('coord_dtype', 'float64')),
                  np.array(case['values'], float), **kw)


def geometry(coords, az, bw_value):
    """independent oracle per pair i<j: unsigned angle (deg) between the line through the points and
    the azimuth direction (0 = East, clockwise positive); perpendicular offset from the azimuth line"""
    a = math.radians(az)
    ux, uy = math.cos(a), -math.sin(a)
    ang, off = [], []
    n = len(coords)
    for i in range(n):
        for j in range(i + 1, n):
            vx, vy = coords[i][0] - coords[j][0], coords[i][1] - coords[j][1]
            d = math.hypot(vx, vy)
            if d == 0.0:
                # co-located points: no direction
                ang.append(float('nan'))
                off.append(0.0)
                continue
            dot = abs(vx * ux + vy * uy) / d
            cross = abs(vx * uy - vy * ux)
            # numerically robust angle between undirected lines
            ang.append(math.degrees(math.atan2(cross / d, dot)))
            off.append(cross)
    return np.array(ang), np.array(off)


@guarded
def check_case(ctx, case):
    coords = np.array(case['coords'], float)
    try:
        V = build(case)
        with quiet():
            mask = np.asarray(V._direction_mask(), bool)
            d = np.asarray(V.distance, float)
            bwv = float(V.bandwidth)
            edges = np.asarray(V.bins, float)
            groups = np.asarray(V.lag_groups())
            counts = np.asarray(V.bin_count)
            exp = np.asarray(V.experimental, float)
            diffs = np.asarray(V.pairwise_diffs, float)
    except ValueError as e:
        if 'setting an array element with a sequence' in str(e):
            ctx.violation('construction', 'DirectionalVariogram(...) raises ValueError: %s' % e, case,
                          signature=dict(kind='construction'))
        else:
            ctx.reject('ValueError:' + str(e)[:40])
        return
    except Exception as e:
        ctx.violation('crash', '%s: %s' % (type(e).__name__, e), case)
        return
    model = case['directional_model']
    az, tol = case['azimuth'], case['tolerance']
    ctx.count('model:' + model)
    ctx.count('bandwidth:' + (case['bandwidth'] if isinstance(case['bandwidth'], str) else 'number'))
    ang, off = geometry(coords, az, bwv)
    # what bandwidth means: the number given, or the stated quantile of the distances
    if isinstance(case['bandwidth'], str):
        bw_spec = float(np.percentile(d, int(case['bandwidth'][1:])))
    else:
        bw_spec = float(case['bandwidth'])
    want = ang <= tol / 2
    near = np.abs(ang - tol / 2) < 1e-7
    near |= ~np.isfinite(ang)
    if model == 'triangle':
        want &= off <= bw_spec / 2
        near |= np.abs(off - bw_spec / 2) < 1e-9 * max(1.0, bw_spec)
    sel, rej = int(mask.sum()), int((~mask).sum())
    ctx.case(signature=(tuple(mask.tolist()), model) if sel and rej else None, stream='mask',
             sample=dict(n=len(coords), azimuth=az, tolerance=tol, bandwidth=case['bandwidth'], model=model,
                         selected=sel, rejected=rej))
    bad = np.where((mask != want) & ~near)[0]
    if len(bad):
        k = int(bad[0])
        ctx.violation('mask', 'pair %d: selected=%s but the angle to the azimuth direction is %.6f deg (tolerance/2 '
                      '= %g) and the offset %.6g (bandwidth/2 = %g, stored bandwidth %g); %d of %d pairs differ' % (
                          k, bool(mask[k]), ang[k], tol / 2, off[k], bw_spec / 2, bwv, len(bad), len(mask)), case,
                      signature=dict(kind='mask', bandwidth_larger_than_max=bool(
                          not isinstance(case['bandwidth'], str) and case['bandwidth'] > d.max()),
                          selects_nothing=bool(sel == 0)))
        return
    # Float twin of the generated mask functions on the implementation's own per-pair data
    n = len(coords)
    pairs = [(i, j) for i in range(n) for j in range(i + 1, n)]
    sc = [coords[i][0] - coords[j][0] for i, j in pairs]
    yd = [coords[i][1] - coords[j][1] for i, j in pairs]
    data = [x for t in zip(sc, yd, d.tolist()) for x in t]

    def cb(f):
        m = [c == '1' for c in f[0].split()]
        th = parse_floatbits(f[1])
        with quiet():
            ang_impl = np.asarray(V._angles, float)
        if not all_close(th, ang_impl.tolist(), rel=1e-12, abs_=1e-15):
            ctx.violation('twin-angle', 'generated pairAngle differs from the stored angles', case)
            return
        diff = [k for k, (a, b) in enumerate(zip(m, mask.tolist())) if a != b and not near[k]]
        if diff:
            ctx.violation('twin-mask', 'generated %s mask differs from the implementation at pairs %r' % (
                model, diff[:5]), case)
    ctx.lean.ask(['c12', 'mask', model, floatbits([az, tol, bwv]), floatbits(data)], cb)

    # edges are derived from the selected pairs only
    if sel == 0:
        return
    fn = binning.even_width_lags if case['bin_func'] == 'even' else binning.uniform_count_lags
    with quiet():
        ml_now = V.maxlag
    if not np.all(np.isfinite(edges)) or (ml_now is not None and not np.any(d[mask] <= ml_now)):
        ctx.reject('no-selected-pair-within-maxlag')      # nothing to bin: outside C02's precondition
        return
    ref, _ = fn(d[mask], case['n_lags'], ml_now)
    ctx.count('maxlag:' + str(case.get('maxlag')))
    if not all_close(edges, np.asarray(ref, float), rel=1e-12):
        ctx.violation('edges', 'lag edges %r are not those of the selected pairs (within the maximum lag %r) %r' % (
            edges.tolist(), ml_now, list(ref)), case)
        return
    # groups / counts / experimental = C01 model on the selected pairs
    gsel = groups[mask]
    if np.any(groups[~mask] != -1):
        ctx.violation('groups', 'a pair outside the search area has a lag class', case)
        return

    def cbg(f):
        mg = parse_ints(f[0]) if f[0] else []
        mc = parse_ints(f[1]) if f[1] else []
        if mg != gsel.tolist() or mc != counts.tolist():
            ctx.violation('groups', 'lag classes / counts of the selected pairs differ from the model: counts %r vs %r' % (
                counts.tolist(), mc), case)
    ctx.lean.ask(['c01', 'groups', frs(edges), frs(d[mask])], cbg)

    def cbe(f):
        m = parse_nums(f[0]) if f[0] else []
        if not all_close(m, exp.tolist(), rel=1e-9):
            ctx.violation('experimental', 'implementation %r, estimator over the selected pairs %r' % (
                exp.tolist(), [None if v is None else float(v) for v in m]), case)
    ctx.lean.ask(['c01', 'exp', case['estimator'], frs(edges), frs(d[mask]), frs(diffs[mask])], cbe)

    # the same instance after its maximum lag was re-assigned (everything had been computed): the result is the one of
    # an instance built with that maximum lag
    tm = case.get('then_maxlag', 'keep')
    if tm != 'keep' and tm != case.get('maxlag'):
        try:
            with quiet():
                V.maxlag = tm
                got = (np.asarray(V.bins, float), np.asarray(V.lag_groups()), np.asarray(V.bin_count), np.asarray(V.experimental, float))
                F = build(case, maxlag=tm)
                want_ = (np.asarray(F.bins, float), np.asarray(F.lag_groups()), np.asarray(F.bin_count), np.asarray(F.experimental, float))
        except ValueError as e:
            ctx.reject('then-maxlag-ValueError:' + str(e)[:40])
            return
        ctx.count('after_maxlag_change:' + str(tm))
        if len(got[0]) != len(want_[0]) or not all_close(got[0], want_[0], rel=1e-12) or got[1].tolist() != want_[1].tolist() \
                or got[2].tolist() != want_[2].tolist() or not all_close(got[3], want_[3], rel=1e-9):
            ctx.violation('after-maxlag-change', 'after maxlag=%r on the computed instance (was %r): edges %r counts %r, an instance '
                          'built with it gives edges %r counts %r' % (tm, case.get('maxlag'), got[0].tolist(), got[2].tolist(),
                                                                      want_[0].tolist(), want_[2].tolist()), case)
            return
    # the same instance after its distance function was changed: the search area is defined by the bandwidth
    # the instance reports *now*, the lag edges by the selected pairs' distances in the new metric
    metric = case.get('then_metric')
    if metric and case.get('maxlag') is None and tm in ('keep', None):   # (a relative maxlag is resolved once: D8-iv, C06)
        try:
            with quiet():
                V.set_dist_function(metric)
                edges2 = np.asarray(V.bins, float)
                mask2 = np.asarray(V._direction_mask(), bool)
                d2 = np.asarray(V.distance, float)
                bw2 = float(V.bandwidth)
                groups2 = np.asarray(V.lag_groups())
        except ValueError as e:
            ctx.reject('then-metric-ValueError:' + str(e)[:40])
            return
        ctx.count('after_dist_function_change')
        ang2, off2 = geometry(coords, az, bw2)
        want2 = ang2 <= tol / 2
        near2 = np.abs(ang2 - tol / 2) < 1e-7
        near2 |= ~np.isfinite(ang2)
        if model == 'triangle':
            want2 &= off2 <= bw2 / 2
            near2 |= np.abs(off2 - bw2 / 2) < 1e-9 * max(1.0, bw2)
        bad2 = np.where((mask2 != want2) & ~near2)[0]
        if len(bad2):
            k = int(bad2[0])
            ctx.violation('mask-after-metric-change', 'after dist_function=%r pair %d: selected=%s, angle %.6f deg '
                          '(tolerance/2 = %g), offset %.6g, reported bandwidth/2 = %g; %d of %d pairs differ' % (
                              metric, k, bool(mask2[k]), ang2[k], tol / 2, off2[k], bw2 / 2, len(bad2), len(mask2)), case)
            return
        if mask2.any() and not near2.any():
            ref2, _ = fn(d2[mask2], case['n_lags'], None)
            if not all_close(edges2, np.asarray(ref2, float), rel=1e-12):
                ctx.violation('edges-after-metric-change', 'after dist_function=%r the lag edges %r are not those of the '
                              'selected pairs %r' % (metric, edges2.tolist(), list(ref2)), case)
            elif np.any(groups2[~mask2] != -1):
                ctx.violation('groups-after-metric-change', 'a pair outside the search area has a lag class', case)


def run(ctx):
    err = available()
    if err is not None:
        case = dict(coords=[[0, 0], [1, 0], [0, 2], [3, 1]], values=[1, 2, 3, 4], note='any input')
        ctx.case(signature=None, stream='mask')
        ctx.violation('construction', 'every DirectionalVariogram(...) raises %s: %s' % (type(err).__name__, err), case,
                      signature=dict(kind='construction'))
        return
    for k in range(ctx.n(160, 1500)):
        check_case(ctx, gen(ctx))
    ctx.lean.flush()


def replay(ctx, body):
    c = body['case']
    if 'azimuth' in c:
        check_case(ctx, c)
    else:
        run(ctx)
    ctx.lean.flush()
