"""C13 - directional variograms obey the symmetries of direction (metamorphic runs on the
implementation; the relations are the conclusions of the C13 theorems)."""
import math
import numpy as np
from skgstat import Variogram

from .common import quiet, all_close, gen_coords, gen_values
from .common import guarded
from . import c12

INFO = dict(
    rule='seeded 2-D point sets x azimuths x rotation angles x sector widths dividing 180 degrees x compass / '
         'triangle; relations: tolerance 180 = isotropic, azimuth +-180, joint rotation of coordinates and azimuth, '
         'sector tiling; pairs within 1e-7 deg of a sector boundary exclude the case; distinct = distinct '
         '(relation, count vector); non-trivial = at least 2 non-empty classes',
    trusted=['rotations are inexact in floating point: cases with a pair within 1e-7 degrees of the tolerance boundary '
             'or a distance within 1e-9 of a lag edge are skipped'],
    assumptions=[])


def obs(V):
    with quiet():
        return np.asarray(V.bins, float), np.asarray(V.bin_count), np.asarray(V.experimental, float)


def same(a, b, tol=1e-9):
    return all_close(a[0], b[0], rel=tol) and a[1].tolist() == b[1].tolist() and all_close(a[2], b[2], rel=1e-9)


def near_boundary(ang, off, case, bwv):
    near_tol = np.nanmin(np.abs(ang - case['tolerance'] / 2)) < 1e-7
    near_bw = case['directional_model'] == 'triangle' and np.min(np.abs(off - bwv / 2)) < 1e-9 * max(1.0, bwv)
    return bool(near_tol or near_bw)


@guarded
def check_case(ctx, case):
    coords = np.array(case['coords'], float)
    values = np.array(case['values'], float)
    az = case['azimuth']
    try:
        base = c12.build(case)
        o0 = obs(base)
        with quiet():
            mask0 = np.asarray(base._direction_mask(), bool)
            d0 = np.asarray(base.distance, float)
    except ValueError as e:
        ctx.reject('ValueError')
        return
    ang, off = c12.geometry(coords, az, 0.0)
    nonempty = int(np.sum(o0[1] > 0))

    def reg(name):
        ctx.case(signature=(name, tuple(o0[1].tolist()), case['directional_model']) if nonempty >= 2 else None,
                 stream='symmetry', sample=dict(relation=name, azimuth=az, tolerance=case['tolerance'],
                                                model=case['directional_model'], counts=o0[1].tolist()))
        ctx.count('relation:' + name)

    # isotropic: tolerance 180 (compass, i.e. no bandwidth limit)
    dmax_all = float(np.max(d0)) if len(d0) else 1.0
    iso_cases = [('compass', dict(case, tolerance=180.0, directional_model='compass')),
                 # ... and the triangle with a bandwidth that limits nothing (beyond twice the largest distance)
                 ('triangle', dict(case, tolerance=180.0, directional_model='triangle',
                                   bandwidth=dmax_all * float(ctx.rng.choice([2.5, 10.0, 1e6]))))]
    with quiet():
        iso = Variogram(coords, values, n_lags=case['n_lags'], estimator=case['estimator'], bin_func=case['bin_func'],
                        fit_method=None)
    reg('isotropic')
    for iso_name, iso_case in iso_cases:
        ctx.count('isotropic:' + iso_name)
        oi = obs(c12.build(iso_case))
        if same(oi, obs(iso)):
            continue
        # defect model D24: co-located pairs have no direction (NaN angle) and are left out of every directional
        # variogram, so tolerance 180 reproduces the isotropic variogram *of the non-degenerate pairs*
        sig = dict(kind='isotropic', colocated_pairs_excluded=False)
        with quiet():
            dd = np.asarray(iso.distance, float)
        if np.any(dd == 0):
            from skgstat import binning
            fn = binning.even_width_lags if case['bin_func'] == 'even' else binning.uniform_count_lags
            pe, _ = fn(dd[dd > 0], case['n_lags'], None)
            pe = np.asarray(pe, float)
            lo = np.concatenate(([0.0], pe[:-1]))
            pc = [int(np.sum((dd[dd > 0] >= a) & (dd[dd > 0] < b))) for a, b in zip(lo, pe)]
            sig['colocated_pairs_excluded'] = bool(len(pe) == len(oi[0]) and np.allclose(pe, oi[0], rtol=1e-12, atol=0)
                                                    and pc == oi[1].tolist())
        ctx.violation('isotropic', 'tolerance=180 (%s, no bandwidth limit): edges %r counts %r, isotropic edges %r counts %r' % (
            iso_name, oi[0].tolist(), oi[1].tolist(), obs(iso)[0].tolist(), obs(iso)[1].tolist()), iso_case, signature=sig)
    # opposite azimuth
    az2 = az - 180 if az > 0 else az + 180
    reg('opposite')
    o2 = obs(c12.build(case, azimuth=az2))
    if near_boundary(ang, off, case, float(base.bandwidth)):
        ctx.count('opposite_skipped_boundary')
    elif not same(o2, o0):
        ctx.violation('opposite', 'azimuth %r vs %r: counts %r vs %r' % (az, az2, o0[1].tolist(), o2[1].tolist()), case)
    # rotation of coordinates (counter-clockwise by phi) and of the clockwise-positive azimuth by -phi
    phi = float(ctx.rng.choice([90.0, 30.0, -45.0, ctx.rng.uniform(-170, 170)]))
    az3 = az - phi
    while az3 > 180:
        az3 -= 360
    while az3 < -180:
        az3 += 360
    near_tol = np.nanmin(np.abs(ang - case['tolerance'] / 2)) < 1e-7
    bwv = float(base.bandwidth)
    near_bw = case['directional_model'] == 'triangle' and np.min(np.abs(off - bwv / 2)) < 1e-9 * max(1.0, bwv)
    # a distance *exactly* on an edge is there by construction (largest selected distance = last `even` edge, a quantile
    # that is a data point) and stays there under rotation; only near misses can flip a class through rounding
    gap = np.abs(d0[mask0][:, None] - o0[0][None, :]) if (mask0.any() and len(o0[0])) else np.ones((1, 1))
    tol_ = 1e-9 * max(1.0, d0.max())
    # ... provided it is a single pair: tied distances (lattices) split differently once rotation perturbs them
    # only the last edge is derived from a pair (the largest selected distance); an inner edge hit exactly is a coincidence
    edges_near = bool(np.any((gap > 0) & (gap < tol_)) or np.any(np.sum(gap < tol_, axis=0) > 1) or
                      (gap.shape[1] > 1 and np.any(gap[:, :-1] < tol_)))
    if near_tol or near_bw or edges_near or isinstance(case['bandwidth'], str) and False:
        ctx.count('rotation_skipped_boundary')
    else:
        p = math.radians(phi)
        R = np.array([[math.cos(p), -math.sin(p)], [math.sin(p), math.cos(p)]])
        rc = dict(case, coords=(coords @ R.T).tolist(), azimuth=az3, coord_dtype='float64')
        reg('rotation')
        o3 = obs(c12.build(rc))
        if not same(o3, o0, tol=1e-9):
            ctx.violation('rotation', 'rotating coordinates by %r deg and the azimuth to %r: counts %r vs %r, edges %r vs %r'
                          % (phi, az3, o0[1].tolist(), o3[1].tolist(), o0[0].tolist(), o3[0].tolist()), rc)
    # tiling of the half circle by m compass sectors
    m = int(ctx.rng.choice([2, 3, 4, 6]))
    width = 180.0 / m
    a0 = float(ctx.rng.choice([0.0, 10.0, -37.0]))
    if ctx.rng.random() < 0.4:
        # sectors whose shared edges point exactly East / North: axis-parallel pairs (exact angles 0 and 90 degrees)
        # lie exactly on an edge - "at most tolerance/2" includes them, so at least one sector has to take them
        m = int(ctx.rng.choice([2, 4]))
        width = 180.0 / m
        a0 = width / 2
    total = np.zeros(len(d0), int)
    boundary = False
    onb = np.zeros(len(d0), bool)
    for k in range(m):
        azk = a0 + k * width
        if azk > 180:
            azk -= 360
        angk, _ = c12.geometry(coords, azk, 0.0)
        if np.nanmin(np.abs(angk - width / 2)) < 1e-7:
            boundary = True
        onb |= np.abs(angk - width / 2) < 1e-7
        onb |= ~np.isfinite(angk)          # co-located points: no direction, outside "every non-degenerate pair"
        with quiet():
            Vk = c12.build(case, azimuth=azk, tolerance=width, directional_model='compass')
            total += np.asarray(Vk._direction_mask(), int)
    reg('tiling')
    n_ = len(coords)
    pi_, pj_ = np.triu_indices(n_, k=1)
    axis_par = ((coords[pi_, 0] == coords[pj_, 0]) ^ (coords[pi_, 1] == coords[pj_, 1]))      # exactly 0 or 90 degrees
    if len(axis_par) == len(total) and np.any((total == 0) & axis_par):
        ctx.violation('tiling', '%d sectors of %g deg from %r: %d axis-parallel pairs lying exactly on a shared sector edge '
                      'are selected by no sector' % (m, width, a0, int(np.sum((total == 0) & axis_par))),
                      dict(case, sectors=m, a0=a0))
    elif np.any((total == 0) & ~onb):
        ctx.violation('tiling', '%d sectors of %g deg from %r: %d pairs are selected by no sector' % (
            m, width, a0, int(np.sum(total == 0))), dict(case, sectors=m, a0=a0))
    elif not boundary and int(total.sum()) != int(np.sum(np.isfinite(angk))):
        ctx.violation('tiling', '%d sectors of %g deg: sector counts add up to %d, number of non-degenerate pairs %d' % (
            m, width, int(total.sum()), int(np.sum(np.isfinite(angk)))), dict(case, sectors=m, a0=a0))


def run(ctx):
    err = c12.available()
    if err is not None:
        ctx.case(signature=None, stream='symmetry')
        ctx.violation('construction', 'every DirectionalVariogram(...) raises %s: %s' % (type(err).__name__, err),
                      dict(note='any input'), signature=dict(kind='construction'))
        return
    for k in range(ctx.n(60, 500)):
        case = c12.gen(ctx)
        case['maxlag'], case['then_maxlag'] = None, 'keep'     # the symmetry relations are stated without a maximum lag
        if isinstance(case['bandwidth'], str):
            case['bandwidth'] = float(np.percentile(__import__('scipy.spatial.distance', fromlist=['pdist']).pdist(
                np.array(case['coords'])), int(case['bandwidth'][1:])))
        check_case(ctx, case)
        # the theorems of C13 are about the generated mask definitions: tie them to the code here as well (Float
        # twin of `_compass` / `_triangle` / the pair angle on the implementation's own per-pair data, C12's stream)
        if k % 3 == 0:
            c12.check_case(ctx, case)
    ctx.lean.flush()


def replay(ctx, body):
    c = body['case']
    if 'azimuth' in c:
        check_case(ctx, c)
    ctx.lean.flush()
