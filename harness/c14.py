"""C14 - space-time experimental variogram = estimator over exactly each cell's pairs."""
import math
import numpy as np
from skgstat import SpaceTimeVariogram

from .common import quiet, frs, fr, parse_nums, parse_ints, all_close, gen_coords
from .common import guarded

INFO = dict(
    rule='seeded location sets (uniform / lattice, so that distances hit space edges exactly) x (locations x time '
         'steps) value tables x x_lags / t_lags x maxlag forms x even / uniform binning on either axis x estimator; '
         'distinct = distinct (space groups, time groups, estimator); non-trivial = at least 2 non-empty cells',
    trusted=[], assumptions=['semivariances compared at 1e-9 relative'])


def gen(ctx):
    rng = ctx.rng
    n = int(rng.integers(5, 12))
    m = int(rng.integers(3, 7))
    kind = str(rng.choice(['uniform', 'lattice']))
    coords = np.unique(gen_coords(rng, n, dim=2, kind=kind), axis=0)
    if rng.random() < 0.3:
        # co-located stations: spatial distance exactly 0 belongs to no class (classes are open at 0)
        k = int(rng.integers(1, 3))
        coords = np.vstack([coords, coords[rng.integers(0, len(coords), size=k)]])
        kind = kind + '+colocated'
    n = len(coords)
    vals = rng.normal(10, 2, size=(n, m)) + np.linspace(0, 3, m)[None, :]
    if rng.random() < 0.3:
        vals = np.round(vals)
    return dict(coords=coords.tolist(), values=vals.tolist(), x_lags=int(rng.integers(2, 6)),
                t_lags=('max' if rng.random() < 0.5 else int(rng.integers(1, m))),
                maxlag=(None if rng.random() < 0.5 else float(rng.choice([0.5, 0.8])) if rng.random() < 0.7 else 'median'),
                xbins=str(rng.choice(['even', 'uniform'])), tbins=str(rng.choice(['even', 'uniform'])),
                estimator=str(rng.choice(['matheron', 'dowd', 'genton'])), kind=kind,
                use_nugget=bool(rng.random() < 0.4))


def build(case):
    with quiet():
        return SpaceTimeVariogram(np.array(case['coords'], float), np.array(case['values'], float),
                                  x_lags=case['x_lags'], t_lags=case['t_lags'], maxlag=case['maxlag'],
                                  xbins=case['xbins'], tbins=case['tbins'], estimator=case['estimator'],
                                  model='product-sum', use_nugget=case.get('use_nugget', False))


@guarded
def check_case(ctx, case):
    try:
        V = build(case)
        with quiet():
            exp = np.asarray(V.experimental, float)
            xb, tb = np.asarray(V.xbins, float), np.asarray(V.tbins, float)
            xd, td = np.asarray(V.xdistance, float), np.asarray(V.tdistance, float)
            xg, tg = np.asarray(V.lag_groups('space')), np.asarray(V.lag_groups('time'))
    except (ValueError, RuntimeError) as e:
        ctx.reject(type(e).__name__ + ':' + str(e)[:40])
        return
    vals = np.array(case['values'], float)
    nx, nt = len(xb), len(tb)
    if len(exp) != nx * nt:
        ctx.violation('table-size', '%d entries for %d x %d classes' % (len(exp), nx, nt), case)
        return
    ctx.count('est:' + case['estimator'])
    ctx.count('bins:%s/%s' % (case['xbins'], case['tbins']))
    if np.any(np.isin(xd, xb)):
        ctx.count('space_edge_hit')
    nonempty = int(np.sum(~np.isnan(exp)))
    ctx.case(signature=(tuple(xg.tolist()), tuple(tg.tolist()), case['estimator']) if nonempty >= 2 else None,
             stream='st-table', sample=dict(n=len(vals), steps=vals.shape[1], x_lags=nx, t_lags=nt,
                                            estimator=case['estimator'], nan_cells=int(np.sum(np.isnan(exp)))))
    # brute-force oracle of the statement (independent of the model)
    want = brute_table(vals, xd, td, xb, tb, case['estimator'])
    if not all_close(exp.tolist(), want, rel=1e-9):
        ctx.violation('table', 'experimental %r, estimator over exactly each cell\'s pairs (space-major) %r' % (
            exp.tolist(), want), case)
        return

    # Lean model on the implementation's own distances and edges
    def cb(f):
        m_ = parse_nums(f[0]) if f[0] else []
        mxg = parse_ints(f[1]) if f[1] else []
        mtg = parse_ints(f[2]) if f[2] else []
        if mxg != xg.tolist() or mtg != tg.tolist():
            ctx.violation('groups', 'space groups %r / time groups %r, model %r / %r' % (
                xg.tolist(), tg.tolist(), mxg, mtg), case)
        elif not all_close(m_, exp.tolist(), rel=1e-9):
            ctx.violation('table-model', 'experimental %r, model %r' % (exp.tolist(), [None if v is None else float(v) for v in m_]), case)
    # cell sizes (pairs per cell) bound the exact Genton model
    lox_ = np.concatenate(([0.0], xb[:-1]))
    lot_ = np.concatenate(([0.0], tb[:-1]))
    nxc = [int(np.sum((xd > a) & (xd <= b))) for a, b in zip(lox_, xb)]
    ntc = [int(np.sum((td > a) & (td <= b))) for a, b in zip(lot_, tb)]
    big = case['estimator'] == 'genton' and max(nxc, default=0) * max(ntc, default=0) > 45
    if not big:
        ctx.lean.ask(['c14', 'table', case['estimator'], str(vals.shape[1]), frs(vals.flatten()), frs(xb), frs(xd),
                      frs(tb), frs(td)], cb)
    # marginals = row / column of the table
    with quiet():
        for lag in range(min(nt, 2)):
            ms = np.asarray(V.get_marginal('space', lag), float)
            if not all_close(ms.tolist(), [exp[i * nt + lag] for i in range(nx)], rel=1e-12):
                ctx.violation('marginal-space', 'get_marginal(space, %d) = %r is not column %d of the table' % (
                    lag, ms.tolist(), lag), case)
                return
        for lag in range(min(nx, 2)):
            mt = np.asarray(V.get_marginal('time', lag), float)
            if not all_close(mt.tolist(), [exp[lag * nt + j] for j in range(nt)], rel=1e-12):
                ctx.violation('marginal-time', 'get_marginal(time, %d) = %r is not row %d of the table' % (
                    lag, mt.tolist(), lag), case)
                return


def brute_table(vals, xd, td, xb, tb, estname):
    """the statement evaluated directly: estimator over exactly each cell's |v[a,s] - v[b,t]|, space-major"""
    nx, nt = len(xb), len(tb)
    n, m = vals.shape
    lox = np.concatenate(([0.0], xb[:-1]))
    lot = np.concatenate(([0.0], tb[:-1]))
    from skgstat import estimators
    est = getattr(estimators, estname)
    cells = [[[] for _ in range(nt)] for _ in range(nx)]
    k = 0
    for a in range(n):
        for b in range(a + 1, n):
            dx = xd[k]
            k += 1
            l = 0
            for s in range(m):
                for t in range(s + 1, m):
                    dt = td[l]
                    l += 1
                    for i in range(nx):
                        if lox[i] < dx <= xb[i]:
                            for j in range(nt):
                                if lot[j] < dt <= tb[j]:
                                    cells[i][j].append(abs(vals[a, s] - vals[b, t]))
    with quiet():
        return [float(est(np.array(cells[i][j]))) if len(cells[i][j]) else float('nan')
                for i in range(nx) for j in range(nt)]


@guarded
def check_rebin(ctx, case):
    """lag edges assigned on an instance that has already computed its table (user edges / another number of classes
    on either axis): the table is again the estimator over exactly each cell's pairs, for the edges it reports now"""
    vals = np.array(case['values'], float)
    try:
        V = build(case)
        with quiet():
            _ = V.experimental
            xb0, tb0 = np.asarray(V.xbins, float), np.asarray(V.tbins, float)
            op = case.get('rebin', 'tbins-edges')
            if op == 'tbins-edges':
                V.tbins = [float(x) for x in tb0[:-1]] if len(tb0) > 1 else [float(tb0[0]) * 0.5]
            elif op == 'xbins-edges':
                V.xbins = (xb0 * 0.8).tolist()
            elif op == 'tbins-int':
                V.tbins = max(1, len(tb0) - 1)
            else:
                V.xbins = len(xb0) + 1
            xb, tb = np.asarray(V.xbins, float), np.asarray(V.tbins, float)
            exp = np.asarray(V.experimental, float)
            xd, td = np.asarray(V.xdistance, float), np.asarray(V.tdistance, float)
            marg = np.asarray(V.get_marginal('space', 0), float)
    except (ValueError, RuntimeError, AttributeError) as e:
        ctx.reject('rebin:' + type(e).__name__)
        return
    ctx.case(signature=('rebin', case.get('rebin'), len(xb), len(tb), case['estimator']), stream='st-rebin',
             sample=dict(op=case.get('rebin'), x_lags=len(xb), t_lags=len(tb)))
    ctx.count('rebin:' + str(case.get('rebin')))
    if len(exp) != len(xb) * len(tb):
        ctx.violation('table-after-rebinning', '%d entries for %d x %d classes after %s' % (
            len(exp), len(xb), len(tb), case.get('rebin')), dict(case, rebin_case=True))
        return
    want = brute_table(vals, xd, td, xb, tb, case['estimator'])
    if not all_close(exp.tolist(), want, rel=1e-9):
        ctx.violation('table-after-rebinning', 'after %s on an instance that had computed its table: experimental %r, '
                      'estimator over exactly each cell\'s pairs for the reported edges %r' % (
                          case.get('rebin'), exp.tolist(), want), dict(case, rebin_case=True))
    elif not all_close(marg.tolist(), [want[i * len(tb)] for i in range(len(xb))], rel=1e-9):
        ctx.violation('table-after-rebinning', 'after %s: get_marginal(space, 0) is not column 0 of the table' %
                      case.get('rebin'), dict(case, rebin_case=True))


@guarded
def check_widen(ctx, case):
    """the table must not depend on what the instance computed before: build with a small maxlag, read,
    widen the spatial reach in place, compare with a fresh instance"""
    wide = dict(case, maxlag=None)
    small = dict(case, maxlag=0.4)
    try:
        V = build(small)
        with quiet():
            _ = V.experimental
            V.maxlag = None
            got = (np.asarray(V.xbins, float), np.asarray(V.experimental, float),
                   np.asarray(V.get_marginal('space', 0), float))
        F = build(wide)
        with quiet():
            want = (np.asarray(F.xbins, float), np.asarray(F.experimental, float),
                    np.asarray(F.get_marginal('space', 0), float))
    except (ValueError, RuntimeError) as e:
        ctx.reject(type(e).__name__)
        return
    ctx.case(signature=('widen', case['x_lags'], case['estimator'], len(case['coords'])), stream='st-widen',
             sample=dict(op='maxlag 0.4 -> None after a read', x_lags=case['x_lags']))
    ctx.count('widen')
    if not (all_close(got[0], want[0], rel=1e-12) and all_close(got[1], want[1], rel=1e-9) and
            all_close(got[2], want[2], rel=1e-9)):
        ctx.violation('table-after-widening', 'after maxlag 0.4 -> None on one instance: experimental %r, a fresh '
                      'instance gives %r' % (got[1].tolist(), want[1].tolist()), dict(case, widen=True))


def run(ctx):
    for k in range(ctx.n(90, 1000)):
        case = gen(ctx)
        check_case(ctx, case)
        if k % 3 == 0:
            check_widen(ctx, case)
        if k % 3 == 1:
            check_rebin(ctx, dict(case, rebin=['tbins-edges', 'xbins-edges', 'tbins-int', 'xbins-int'][(k // 3) % 4]))
    ctx.lean.flush()


def replay(ctx, body):
    if body['case'].get('widen'):
        check_widen(ctx, body['case'])
    elif body['case'].get('rebin_case'):
        check_rebin(ctx, body['case'])
    else:
        check_case(ctx, body['case'])
    ctx.lean.flush()
