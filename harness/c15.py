"""C15 - the space-time model is fitted to each cell at its own space and time lag."""
import sys
import math
import numpy as np
import scipy.optimize
from skgstat import stmodels

from .common import quiet, frs, fr, parse_nums, all_close, close
from .common import guarded
from . import c14

INFO = dict(
    rule='seeded space-time data sets (x_lags != t_lags as well as equal) x {sum, product, product-sum}; the '
         'samples that reach curve_fit are recorded and compared with the model pairing; distinct = distinct '
         '(model, x_lags, t_lags, NaN pattern); non-trivial = at least 4 samples',
    trusted=['curve_fit: local optimality is validated by restarting from the result (numeric, not a proof)'],
    assumptions=[])

STM = sys.modules['skgstat.SpaceTimeVariogram']


def refit_after(ctx, case, V):
    """the same instance fitted again after its estimator changed: the parameters are those of a fresh instance with
    the final settings (fitted to the *current* experimental table)"""
    if case['model'] != 'product-sum' or not case.get('refit', True):
        return
    other = 'dowd' if case['estimator'] != 'dowd' else 'matheron'
    try:
        with quiet():
            V.set_estimator(other)
            V.fit()
            cof2 = [float(c) for c in V.cof]
            F = c14.build(dict(case, estimator=other))
            F.set_model(case['model'])
            F.fit()
            cofF = [float(c) for c in F.cof]
        ctx.count('refit_after_estimator_change')
        scale_c = max(1e-9, max(abs(c) for c in cofF))
        if not all_close(cof2, cofF, rel=1e-6, abs_=1e-6 * scale_c):
            ctx.violation('stale-fit', 'after estimator=%r on a fitted instance and a new fit: coefficients %r, a fresh '
                          'instance with the final settings gives %r' % (other, cof2, cofF), case)
    except (ValueError, RuntimeError, ZeroDivisionError) as e:
        ctx.reject('refit:' + type(e).__name__)


def _check_case_inner(ctx, case):
    rec = []
    real = scipy.optimize.curve_fit

    def spy(f, xdata, ydata, **kw):
        rec.append(dict(f=f, x=np.array(xdata, float), y=np.array(ydata, float), kw=kw))
        return real(f, xdata, ydata, **kw)
    STM.curve_fit = spy
    try:
        V = c14.build(case)
        with quiet():
            V.set_model(case['model'])
            V.fit()
            cof = [float(c) for c in V.cof]
            exp = np.asarray(V.experimental, float)
            xb, tb = np.asarray(V.xbins, float), np.asarray(V.tbins, float)
            fm = V.fitted_model
            params = dict(V._model_params)
            Vx, Vt = V.XMarginal.fitted_model, V.TMarginal.fitted_model
    except (ValueError, RuntimeError, ZeroDivisionError) as e:
        ctx.reject(type(e).__name__ + ':' + str(e)[:30])
        return
    finally:
        STM.curve_fit = real
    nx, nt = len(xb), len(tb)
    nanpat = tuple(bool(math.isnan(v)) for v in exp)
    ctx.count('model:' + case['model'])
    ctx.count('x_lags%st_lags' % ('==' if nx == nt else '!='))
    nsamp = int(np.sum(~np.isnan(exp)))
    ctx.case(signature=(case['model'], nx, nt, nanpat) if nsamp >= 4 else None, stream='st-fit',
             sample=dict(model=case['model'], x_lags=nx, t_lags=nt, nan_cells=int(sum(nanpat)), cof=cof))
    # fitted model evaluates to the documented combination
    pts = [(float(xb[i % nx]), float(tb[j % nt])) for i, j in ((0, 0), (1, 1), (nx - 1, 0), (0, nt - 1))]
    pts.append((float(xb[-1]) * 0.37, float(tb[-1]) * 0.61))
    # lag pairs on the axes and the origin: the marginal models contribute their value at lag 0 (the nugget)
    pts += [(float(xb[nx // 2]), 0.0), (0.0, float(tb[nt // 2])), (0.0, 0.0)]
    with quiet():
        for h, t in pts:
            got = float(fm(np.array([h, t])))
            vx, vt = float(Vx(h)), float(Vt(t))
            # the documented combination uses the sills of the fitted marginal variograms
            Cx, Ct = float(V.XMarginal.describe()['sill']), float(V.TMarginal.describe()['sill'])
            if case['model'] == 'sum':
                want = vx + vt
            elif case['model'] == 'product':
                want = Cx * vt + Ct * vx - vx * vt
            else:
                k1, k2, k3 = cof
                want = (k2 + k1 * Ct) * vx + (k3 + k1 * Cx) * vt - k1 * vx * vt
            if not close(got, want, rel=1e-10):
                ctx.violation('formula', '%s model at (h=%r, t=%r): %r, documented combination of the marginals %r' % (
                    case['model'], h, t, got, want), case)
                return
    # the closure on a stack of N lag pairs (N = 1, 2, 3, 5; rows are (h, t)) = the per-pair values
    with quiet():
        single = [float(fm(np.array([h, t]))) for h, t in pts]
        for N in (1, 2, 3, 5):
            stack = np.array(pts[:N], dtype=float)
            try:
                got = np.asarray(fm(stack), float).ravel().tolist()
            except Exception as e:
                ctx.violation('formula-array', '%s model on %d stacked (h, t) pairs raises %s: %s' % (
                    case['model'], N, type(e).__name__, str(e)[:100]), case)
                return
            ctx.count('stacked_lag_pairs')
            if len(got) != N or not all_close(got, single[:N], rel=1e-12):
                ctx.violation('formula-array', '%s model on %d stacked (h, t) pairs %r: %r, pair by pair %r' % (
                    case['model'], N, stack.tolist(), got, single[:N]), case)
                return
    if not rec:
        return V   # no free parameter (sum / product with fixed sills): nothing is fitted
    call = rec[-1]

    def cb(f):
        mx = [float(v) for v in parse_nums(f[0])] if f[0] else []
        mt = [float(v) for v in parse_nums(f[1])] if f[1] else []
        mz = [float(v) for v in parse_nums(f[2])] if f[2] else []
        gx, gt = call['x'][:, 0].tolist(), call['x'][:, 1].tolist()
        if mz != call['y'].tolist() or mx != gx or mt != gt:
            k = next((i for i, (a, b, c, d) in enumerate(zip(mx, gx, mt, gt)) if a != b or c != d), 0)
            ctx.violation('pairing', 'sample %d: semivariance %r is fitted at lags (h=%r, t=%r), its own cell has '
                          '(h=%r, t=%r); x_lags=%d t_lags=%d' % (k, call['y'][k] if k < len(call['y']) else None,
                                                                  gx[k] if k < len(gx) else None,
                                                                  gt[k] if k < len(gt) else None,
                                                                  mx[k] if k < len(mx) else None,
                                                                  mt[k] if k < len(mt) else None, nx, nt), case,
                          signature=dict(kind='pairing'))
    ctx.lean.ask(['c14', 'samples', frs(xb), frs(tb), ' '.join('nan' if math.isnan(v) else fr(v) for v in exp)], cb)
    # local optimality (numeric)
    f, x, y = call['f'], call['x'], call['y']
    def obj(p):
        with quiet():
            return float(np.sum((np.asarray(f(x, *p), float) - y) ** 2))
    try:
        with quiet():
            p2, _ = real(f, x, y, bounds=[0, np.inf], p0=np.maximum(np.array(cof), 1e-12))
        o1, o2 = obj(cof), obj(p2)
        tss = float(np.sum(y ** 2))
        # "noticeably": one per cent (SciPy stops within its default tolerances: drops of 1e-4 relative occur on unchanged code)
        if o1 - o2 > 1e-2 * o1 and o1 - o2 > 1e-6 * tss:
            ctx.violation('not-locally-optimal', 're-optimising from %r lowers the objective from %r to %r' % (cof, o1, o2), case)
    except Exception:
        pass
    return V


@guarded
def check_case(ctx, case):
    V = _check_case_inner(ctx, case)
    if V is not None:
        refit_after(ctx, case, V)


def run(ctx):
    for k in range(ctx.n(100, 600)):
        case = c14.gen(ctx)
        case['estimator'] = 'matheron'
        case['model'] = str(ctx.rng.choice(['sum', 'product', 'product-sum', 'product-sum']))
        if ctx.rng.random() < 0.3:
            case['t_lags'] = min(case['x_lags'], len(case['values'][0]) - 1)
        check_case(ctx, case)
    ctx.lean.flush()


def replay(ctx, body):
    check_case(ctx, body['case'])
    ctx.lean.flush()
