"""C16 - cross-variograms use products of paired differences; the table is symmetric."""
import numpy as np
import skgstat
from skgstat import Variogram

from .common import all_close, quiet, frs, parse_nums
from .common import guarded
from . import vario

INFO = dict(
    rule='seeded point sets x N-column value tables (N=2..4) x n_lags / maxlag / estimator; '
         'isotropic and directional base class; distinct = distinct (N, count vector, estimator); '
         'non-trivial = at least 2 non-empty classes',
    trusted=[], assumptions=[])


@guarded
def check_case(ctx, case):
    coords = np.array(case['coords'], float)
    vals = np.array(case['table'], float)
    kw = dict(case['kw'], fit_method=None)
    N = vals.shape[1]
    # ---- pairwise products of one two-column instance vs the model ---------------------------
    try:
        with quiet():
            V = Variogram(coords, vals[:, :2], **kw)
            diffs = np.asarray(V.pairwise_diffs, float)
            d = np.asarray(V.distance, float)
            edges = np.asarray(V.bins, float)
            exp = np.asarray(V.experimental, float)
            counts = np.asarray(V.bin_count)
    except ValueError as e:
        ctx.reject('ValueError:' + str(e)[:40])
        return
    sparse = vario.is_sparse(V)
    ctx.count('N=%d' % N)
    ctx.count('est:' + kw['estimator'])
    ctx.count('directional' if case.get('directional') else 'isotropic')
    nonempty = int(np.sum(counts > 0))
    ctx.case(signature=(N, tuple(counts.tolist()), kw['estimator']) if nonempty >= 2 else None, stream='cross',
             sample=dict(N=N, kw=case['kw'], counts=counts.tolist()))
    if not sparse:
        def cb(f):
            m = parse_nums(f[0]) if f[0] else []
            if not all_close(m, diffs.tolist(), rel=1e-12, abs_=1e-300):
                ctx.violation('cross-diffs', 'pairwise_diffs are not |dz1|*|dz2| of the same pair', case)
        ctx.lean.ask(['c01', 'crossdiffs', frs(vals[:, 0]), frs(vals[:, 1])], cb)
    if kw['estimator'] in ('matheron', 'dowd'):
        def cb2(f):
            m = parse_nums(f[0]) if f[0] else []
            if not all_close(m, exp.tolist(), rel=1e-9):
                ctx.violation('cross-experimental', 'implementation %r, model %r' % (exp.tolist(), m), case)
        ctx.lean.ask(['c01', 'exp', kw['estimator'], frs(edges), frs(d), frs(diffs)], cb2)

    # ---- the products are those of the table that was handed over: an in-place change of the caller's table
    #      afterwards, followed by a forced re-computation, must not reach the instance
    try:
        tab = np.ascontiguousarray(vals[:, :2]).copy()
        with quiet():
            W = Variogram(coords, tab, **kw)
            d1 = np.asarray(W.pairwise_diffs, float).copy()
            tab[:, 1] = tab[::-1, 1] * 3.0 + 7.0
            tab[:, 0] += 5.0
            W.preprocessing(force=True)
            d2 = np.asarray(W.pairwise_diffs, float)
        ctx.count('caller_table_mutated_then_recomputed')
        if not all_close(d2.tolist(), d1.tolist(), rel=1e-12, abs_=1e-300):
            ctx.violation('cross-diffs-follow-caller', 'after the caller changed its two-column table in place and the instance '
                          're-computed, the pairwise products are no longer those of the table that was handed over',
                          dict(case, caller_mutation=True))
            return
    except ValueError as e:
        ctx.reject('ValueError:' + str(e)[:40])
    # ---- re-assigning the value table on the same instance (same primary column, other co-variable;
    #      ordinary <-> cross): the products must follow the *current* table
    if N >= 3 and not sparse:
        steps = [('cross(z1,z3)', vals[:, [0, 2]]), ('ordinary(z1)', vals[:, 0]), ('cross(z1,z2)', vals[:, :2])]
        for label, tab in steps:
            try:
                with quiet():
                    V.values = tab.copy()
                    got = (np.asarray(V.pairwise_diffs, float), np.asarray(V.experimental, float))
                    F = Variogram(coords, tab.copy(), **kw)
                    want = (np.asarray(F.pairwise_diffs, float), np.asarray(F.experimental, float))
            except ValueError as e:
                ctx.reject('reassign-ValueError')
                break
            ctx.count('reassign:' + label)
            if not all_close(got[0], want[0], rel=1e-12, abs_=1e-300) or not all_close(got[1], want[1], rel=1e-9):
                ctx.violation('cross-reassign', 'after values = %s on the same instance the pairwise products / semivariances '
                              'are not those of the assigned table: %r vs fresh %r' % (label, got[1].tolist(), want[1].tolist()),
                              dict(case, reassign=label))
                break

    # ---- the table -----------------------------------------------------------------------------
    tkw = dict(kw)
    if case.get('directional'):
        tkw.update(case['directional'])
        tkw.pop('fit_method', None)        # DirectionalVariogram does not accept fit_method=None
    try:
        with quiet():
            table = skgstat.cross_variograms(coords, vals, **tkw)
            obs = [[(np.asarray(v.bins, float), np.asarray(v.bin_count), np.asarray(v.experimental, float))
                    for v in row] for row in table]
    except (ValueError, RuntimeError) as e:
        ctx.reject('table-%s:' % type(e).__name__ + str(e)[:40])
        return
    for i in range(N):
        for j in range(i + 1, N):
            a, b = obs[i][j], obs[j][i]
            if not (all_close(a[0], b[0], rel=0) and a[1].tolist() == b[1].tolist() and all_close(a[2], b[2], rel=1e-12)):
                ctx.violation('table-asymmetric', 'entry (%d,%d) != (%d,%d): %r vs %r' % (
                    i, j, j, i, a[2].tolist(), b[2].tolist()), case)
    Base = skgstat.DirectionalVariogram if case.get('directional') else Variogram
    for i in range(N):
        try:
            with quiet():
                Vi = Base(coords, vals[:, i], **tkw)
        except (ValueError, RuntimeError) as e:
            ctx.reject('table-diagonal-%s' % type(e).__name__)
            continue
        with quiet():
            ref = (np.asarray(Vi.bins, float), np.asarray(Vi.bin_count), np.asarray(Vi.experimental, float))
        a = obs[i][i]
        if not (all_close(a[0], ref[0], rel=0) and a[1].tolist() == ref[1].tolist() and all_close(a[2], ref[2], rel=1e-12)):
            ctx.violation('table-diagonal', 'entry (%d,%d) is not the ordinary variogram of column %d' % (i, i, i), case)


def gen(ctx):
    rng = ctx.rng
    base = vario.gen_case(rng, nmax=28, allow_custom=False, dims=(2,), metrics=['euclidean'],
                          binnings=['even', 'uniform', 'sturges'], estimators=['matheron', 'cressie', 'dowd'])
    n = len(base['values'])
    N = int(rng.integers(2, 5))
    coords = np.array(base['coords'])
    cols = [np.array(base['values'])]
    for k in range(N - 1):
        cols.append(cols[0] * rng.uniform(-1, 1) + rng.normal(0, 1.5, size=n) + rng.uniform(-5, 5))
    case = dict(coords=base['coords'], table=np.column_stack(cols).tolist(), kw=base['kw'], kind=base['kind'])
    if directional_available() and rng.random() < 0.4 and not (isinstance(base['kw']['maxlag'], float) and base['kw']['maxlag'] >= 1):
        case['directional'] = dict(azimuth=float(rng.choice([0, 45, 90, -30])), tolerance=float(rng.choice([45, 90, 120])))
        if rng.random() < 0.4:
            # only the azimuth is given (0 = East is a direction like any other): the directional base class still applies
            case['directional'] = dict(azimuth=[0, 0.0, 45][int(rng.integers(0, 3))])
    return case


_dir = None


def directional_available():
    """DirectionalVariogram construction works (D1 repaired)"""
    global _dir
    if _dir is None:
        try:
            with quiet():
                skgstat.DirectionalVariogram(np.random.default_rng(0).uniform(0, 10, (12, 2)), np.arange(12.0))
            _dir = True
        except Exception:
            _dir = False
    return _dir


def run(ctx):
    for k in range(ctx.n(80, 600)):
        check_case(ctx, gen(ctx))
    if not directional_available():
        ctx.count('directional_base_class_unavailable')
    ctx.lean.flush()


def replay(ctx, body):
    check_case(ctx, body['case'])
    ctx.lean.flush()
