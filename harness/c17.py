"""C17 - jackknife cross-validation scores are those of true leave-one-out kriging."""
import math
import numpy as np
from skgstat import Variogram, OrdinaryKriging

from .common import quiet, frs, fr, parse_nums, close, gen_coords, gen_values
from . import krig, c07

INFO = dict(
    rule='seeded 2-D data sets x models x n (all points / seeded subsets) x metric x score; ranges chosen so '
         'that some hold-outs cannot be estimated (fewer than 5 neighbours); distinct = distinct '
         '(subset, NaN pattern, metric); non-trivial = at least 2 estimable hold-outs',
    trusted=['numpy default_rng stream (the seeded subset is reproduced with the same call)',
             'each leave-one-out prediction is recomputed through the real OrdinaryKriging on the reduced '
             'set; a sample of them additionally through the exact C07 model'],
    assumptions=[])


def check_case(ctx, case):
    coords = np.array(case['coords'], float)
    values = np.array(case['values'], float)
    kw = dict(case['kw'])
    try:
        with quiet():
            V = Variogram(coords, values, **kw)
            descr = V.describe()
    except Exception as e:
        ctx.reject(type(e).__name__)
        return
    n = case['n']
    seed = case['seed']
    scores = {}
    try:
        with quiet():
            for metric in ('rmse', 'mse', 'mae'):
                scores[metric] = float(V.cross_validate(metric=metric, n=n, seed=seed))
            again = float(V.cross_validate(metric='rmse', n=n, seed=seed))
    except Exception as e:
        ctx.violation('crash', '%s: %s' % (type(e).__name__, e), case)
        return
    if not close(again, scores['rmse'], rel=0):
        ctx.violation('not-reproducible', 'same seed, different score: %r vs %r' % (scores['rmse'], again), case)
    size = n if n is not None else len(coords)
    idx = np.random.default_rng(seed=seed).choice(len(coords), replace=False, size=size)
    devs = []
    for i in idx.tolist():
        c = np.delete(coords, i, axis=0)
        v = np.delete(values, i, axis=0)

        def cbd(f, i=i, v=v):
            if not [float(x) for x in parse_nums(f[0])] == v.tolist():
                ctx.violation('delete-model', 'np.delete differs from the model at %d' % i, case)
        if len(values) <= 14:
            ctx.lean.ask(['c17', 'delete', str(i), frs(values)], cbd)
        with quiet():
            ok = OrdinaryKriging(descr, coordinates=c, values=v)
            z = float(ok.transform([coords[i][0]], [coords[i][1]])[0])
        devs.append(z - values[i])
    devs = np.array(devs)
    est = ~np.isnan(devs)
    ctx.count('n:' + ('all' if n is None else 'subset'))
    ctx.count('model:' + kw['model'])
    if (~est).any():
        ctx.count('with_unestimable_points')
    ctx.case(signature=(tuple(idx.tolist()), tuple(est.tolist()), kw['model']) if est.sum() >= 2 else None,
             stream='jackknife', sample=dict(n_points=len(coords), n=n, seed=seed, estimable=int(est.sum()),
                                            scores=scores))
    if not est.any():
        return

    def cb(f):
        mse, mae, mae_def = (parse_nums(x)[0] for x in f[:3])
        want = dict(mse=float(mse), rmse=math.sqrt(float(mse)), mae=float(mae))
        for metric in ('rmse', 'mse', 'mae'):
            if not close(scores[metric], want[metric], rel=1e-9):
                sig = dict(kind='score', metric=metric,
                           equals_defect_model=bool(metric == 'mae' and close(scores[metric], float(mae_def), rel=1e-9)))
                ctx.violation('score-' + metric, '%s: cross_validate returns %r, the score over the %d estimable of '
                              '%d held-out points is %r' % (metric, scores[metric], int(est.sum()), len(devs),
                                                            want[metric]), case, signature=sig)
    ctx.lean.ask(['c17', 'score', ' '.join('nan' if math.isnan(x) else fr(x) for x in devs)], cb)
    # one hold-out through the exact kriging model
    if ctx.rng.random() < 0.5:
        i = int(idx[0])
        vd = dict(model=descr['model'], effective_range=float(descr['effective_range']), sill=float(descr['sill']),
                  nugget=float(descr['nugget']), dist_func=descr['dist_func'])
        for k in ('shape', 'smoothness'):
            if k in descr:
                vd[k] = float(descr[k])
        kc = dict(coords=np.delete(coords, i, axis=0).tolist(), values=np.delete(values, i, axis=0).tolist(),
                  vario=vd, min_points=5, max_points=15, targets=[coords[i].tolist()], sparse=False, solver='inv',
                  kind='loo', dim=2)
        c07.check_case(ctx, kc)


def gen(ctx):
    rng = ctx.rng
    n = int(rng.integers(12, 34))
    kind = str(rng.choice(['uniform', 'clustered', 'twoclusters']))
    coords = np.unique(gen_coords(rng, n, dim=2, kind=kind), axis=0)
    if rng.random() < 0.5:
        # isolated stations far from everything else: their hold-out cannot be estimated (< 5 neighbours
        # within the effective range) - the scores must be taken over the others only
        k = int(rng.integers(1, 4))
        far = coords.max(axis=0) + rng.uniform(300, 900, size=(k, 2)) * np.array([[1, 1], [1, -1], [-1, 1]])[:k]
        coords = np.vstack([coords, far])
        rng.shuffle(coords, axis=0)
    if rng.random() < 0.3:
        # co-located observations: holding one out leaves its twin among the remaining data
        k = int(rng.integers(1, 4))
        coords = np.vstack([coords, coords[rng.integers(0, len(coords), size=k)]])
        rng.shuffle(coords, axis=0)
    values = gen_values(rng, coords, 'field')
    model = str(rng.choice(['spherical', 'exponential', 'cubic', 'stable', 'matern']))
    kw = dict(model=model, n_lags=int(rng.integers(4, 9)), maxlag=str(rng.choice(['median', 'mean'])) if rng.random() < 0.7 else None,
              use_nugget=bool(rng.random() < 0.4), dist_func=str(rng.choice(['euclidean', 'euclidean', 'cityblock'])))
    sub = None if rng.random() < 0.6 else int(rng.integers(max(3, len(coords) - 4), len(coords)))
    return dict(coords=coords.tolist(), values=values.tolist(), kw=kw, n=sub, seed=int(rng.integers(0, 10 ** 6)))


def run(ctx):
    for k in range(ctx.n(22, 200)):
        check_case(ctx, gen(ctx))
    ctx.lean.flush()


def replay(ctx, body):
    check_case(ctx, body['case'])
    ctx.lean.flush()
