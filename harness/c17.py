"""C17 - jackknife cross-validation scores are those of true leave-one-out kriging."""
import math
import numpy as np
from skgstat import Variogram, OrdinaryKriging

from .common import quiet, frs, fr, parse_nums, close, gen_coords, gen_values
from .common import guarded
from . import krig, c07

INFO = dict(
    rule='seeded 2-D data sets x models x n (all points / seeded subsets) x metric x score; ranges chosen so '
         'that some hold-outs cannot be estimated (fewer than 5 neighbours); distinct = distinct '
         '(subset, NaN pattern, metric); non-trivial = at least 2 estimable hold-outs',
    trusted=['numpy default_rng stream (the seeded subset is reproduced with the same call)',
             'each leave-one-out prediction is recomputed through the real OrdinaryKriging on the reduced '
             'set; a sample of them additionally through the exact C07 model'],
    assumptions=[])


@guarded
def check_case(ctx, case):
    coords = np.array(case['coords'], float)
    values = np.array(case['values'], float)
    kw = dict(case['kw'])
    try:
        with quiet():
            V = Variogram(coords, values, **kw)
            descr = V.describe()
    except Exception as e:
        ctx.reject(type(e).__name__)
        return
    n = case['n']
    seed = case['seed'] if case.get('seed_type', 'int') == 'int' else getattr(np, case['seed_type'])(case['seed'])
    scores = {}
    try:
        with quiet():
            for metric in ('rmse', 'mse', 'mae'):
                scores[metric] = float(V.cross_validate(metric=metric, n=n, seed=seed))
            again = float(V.cross_validate(metric='rmse', n=n, seed=seed))
    except Exception as e:
        ctx.violation('crash', '%s: %s' % (type(e).__name__, e), case)
        return
    if not close(again, scores['rmse'], rel=0):
        ctx.violation('not-reproducible', 'same seed, different score: %r vs %r' % (scores['rmse'], again), case)
    # the score follows the instance: after another model was set (and fitted) on it, cross-validation uses that
    # model - it equals the score of a fresh instance constructed with the final settings
    if case.get('revalidate', True):
        other = 'exponential' if kw['model'] != 'exponential' else 'spherical'
        try:
            with quiet():
                W = Variogram(coords, values, **kw)
                float(W.cross_validate(metric='rmse', n=n, seed=seed))
                W.model = other
                got2 = float(W.cross_validate(metric='rmse', n=n, seed=seed))
                F = Variogram(coords, values, **dict(kw, model=other))
                want2 = float(F.cross_validate(metric='rmse', n=n, seed=seed))
            ctx.count('revalidated_after_model_change')
            if not close(got2, want2, rel=1e-9):
                ctx.violation('stale-model', 'after model=%r was set on an instance that had been cross-validated, rmse = %r; '
                              'a fresh instance with that model gives %r' % (other, got2, want2), case)
                return
        except (RuntimeError, ValueError, AttributeError) as e:
            ctx.reject('revalidate:' + type(e).__name__)
    size = n if n is not None else len(coords)
    idx = np.random.default_rng(seed=seed).choice(len(coords), replace=False, size=size)
    devs = []
    for i in idx.tolist():
        c = np.delete(coords, i, axis=0)
        v = np.delete(values, i, axis=0)

        def cbd(f, i=i, v=v):
            if not [float(x) for x in parse_nums(f[0])] == v.tolist():
                ctx.violation('delete-model', 'np.delete differs from the model at %d' % i, case)
        if len(values) <= 14:
            ctx.lean.ask(['c17', 'delete', str(i), frs(values)], cbd)
        with quiet():
            ok = OrdinaryKriging(descr, coordinates=c, values=v)
            z = float(ok.transform([coords[i][0]], [coords[i][1]])[0])
        devs.append(z - values[i])
    devs = np.array(devs)
    est = ~np.isnan(devs)
    ctx.count('n:' + ('all' if n is None else 'subset'))
    ctx.count('model:' + kw['model'])
    if (~est).any():
        ctx.count('with_unestimable_points')
    ctx.case(signature=(tuple(idx.tolist()), tuple(est.tolist()), kw['model']) if est.sum() >= 2 else None,
             stream='jackknife', sample=dict(n_points=len(coords), n=n, seed=int(seed), estimable=int(est.sum()),
                                            scores=scores))
    if not est.any():
        return

    def cb(f):
        mse, mae, mae_def = (parse_nums(x)[0] for x in f[:3])
        want = dict(mse=float(mse), rmse=math.sqrt(float(mse)), mae=float(mae))
        for metric in ('rmse', 'mse', 'mae'):
            if not close(scores[metric], want[metric], rel=1e-9):
                sig = dict(kind='score', metric=metric,
                           equals_defect_model=bool(metric == 'mae' and close(scores[metric], float(mae_def), rel=1e-9)))
                ctx.violation('score-' + metric, '%s: cross_validate returns %r, the score over the %d estimable of '
                              '%d held-out points is %r' % (metric, scores[metric], int(est.sum()), len(devs),
                                                            want[metric]), case, signature=sig)
    ctx.lean.ask(['c17', 'score', ' '.join('nan' if math.isnan(x) else fr(x) for x in devs)], cb)
    # the whole jackknife through the end-to-end model (`jackknife`: hold-out, neighbour search, exact solve per
    # selected point composed inside Lean); data sets with duplicated locations go through the per-point route
    # below only, because OrdinaryKriging first removes duplicates (which shifts the indices)
    if len(np.unique(coords, axis=0)) == len(coords) and len(coords) <= 40:
        from scipy.spatial.distance import cdist
        with quiet():
            ok0 = OrdinaryKriging(descr, coordinates=coords, values=values)
            g = ok0.gamma_model
            D = cdist(coords, coords, metric=descr['dist_func'])
            Gm = np.array([[float(g(D[a, b])) for b in range(len(coords))] for a in range(len(coords))])
        rng_eff = float(ok0.range)

        def cbj(f):
            mdev = parse_nums(f[0]) if f[0] else []
            nbs = [[int(t) for t in part.split()] for part in f[1].split(';')] if f[1] else []
            ctx.count('jackknife_e2e')
            scale = max(1.0, float(np.max(np.abs(values))))
            for k, i in enumerate(idx.tolist()):
                if (mdev[k] is None) != bool(math.isnan(devs[k])):
                    ctx.violation('jackknife-e2e', 'held-out point %d: implementation deviation %r, end-to-end model %r'
                                  % (i, devs[k], mdev[k]), case)
                    return
                if mdev[k] is None:
                    continue
                nb = nbs[k]
                A = np.ones((len(nb) + 1, len(nb) + 1))
                A[:-1, :-1] = Gm[np.ix_(nb, nb)]
                np.fill_diagonal(A, 0.0)
                cond = float(np.linalg.cond(A))
                if not math.isfinite(cond) or cond > 1e9:
                    continue
                if abs(devs[k] - float(mdev[k])) > (1e-12 * cond + 1e-9) * scale:
                    ctx.violation('jackknife-e2e', 'held-out point %d: deviation %r, leave-one-out kriging from all '
                                  'remaining observations (exact solve) gives %r' % (i, devs[k], float(mdev[k])), case)
                    return
        ctx.lean.ask(['c17', 'jack', fr(rng_eff), '5', '15', str(len(coords)), frs(D.flatten()), frs(Gm.flatten()),
                      frs(values), ' '.join(str(int(i)) for i in idx)], cbj)
    # one hold-out through the exact kriging model
    if ctx.rng.random() < 0.5:
        i = int(idx[0])
        vd = dict(model=descr['model'], effective_range=float(descr['effective_range']), sill=float(descr['sill']),
                  nugget=float(descr['nugget']), dist_func=descr['dist_func'])
        for k in ('shape', 'smoothness'):
            if k in descr:
                vd[k] = float(descr[k])
        kc = dict(coords=np.delete(coords, i, axis=0).tolist(), values=np.delete(values, i, axis=0).tolist(),
                  vario=vd, min_points=5, max_points=15, targets=[coords[i].tolist()], sparse=False, solver='inv',
                  kind='loo', dim=2)
        c07.check_case(ctx, kc)


def gen(ctx):
    rng = ctx.rng
    n = int(rng.integers(12, 34))
    kind = str(rng.choice(['uniform', 'clustered', 'twoclusters']))
    coords = np.unique(gen_coords(rng, n, dim=2, kind=kind), axis=0)
    if rng.random() < 0.5:
        # isolated stations far from everything else: their hold-out cannot be estimated (< 5 neighbours
        # within the effective range) - the scores must be taken over the others only
        k = int(rng.integers(1, 4))
        far = coords.max(axis=0) + rng.uniform(300, 900, size=(k, 2)) * np.array([[1, 1], [1, -1], [-1, 1]])[:k]
        coords = np.vstack([coords, far])
        rng.shuffle(coords, axis=0)
    if rng.random() < 0.3:
        # co-located observations: holding one out leaves its twin among the remaining data
        k = int(rng.integers(1, 4))
        coords = np.vstack([coords, coords[rng.integers(0, len(coords), size=k)]])
        rng.shuffle(coords, axis=0)
    values = gen_values(rng, coords, 'field')
    model = str(rng.choice(['spherical', 'exponential', 'cubic', 'stable', 'matern']))
    kw = dict(model=model, n_lags=int(rng.integers(4, 9)), maxlag=str(rng.choice(['median', 'mean'])) if rng.random() < 0.7 else None,
              use_nugget=bool(rng.random() < 0.4), dist_func=str(rng.choice(['euclidean', 'euclidean', 'cityblock'])))
    sub = None if rng.random() < 0.6 else int(rng.integers(max(3, len(coords) - 4), len(coords)))
    # seeds: 0 and NumPy integer scalars are seeds like any other
    seed = int(rng.choice([0, 0, 1, int(rng.integers(2, 10 ** 6))]))
    if seed == 0 and sub is None and rng.random() < 0.7:
        sub = max(3, len(coords) - 3)       # a seeded *subset* is what makes the seed observable
    return dict(coords=coords.tolist(), values=values.tolist(), kw=kw, n=sub, seed=seed,
                seed_type=str(rng.choice(['int', 'int', 'int64', 'uint32'])))


def run(ctx):
    for k in range(ctx.n(22, 400)):
        check_case(ctx, gen(ctx))
    ctx.lean.flush()


def replay(ctx, body):
    check_case(ctx, body['case'])
    ctx.lean.flush()
