"""C18 - results are reproducible, instances isolated, caller arrays never modified."""
import os
import sys
import math
import json
import copy
import pickle
import subprocess
import numpy as np

from skgstat import Variogram, OrdinaryKriging, MetricSpace

from .common import quiet, all_close, gen_coords, gen_values, REPO
from .common import guarded

INFO = dict(
    # the ownership table is decided on the implementation itself (np.shares_memory on every stored / returned array,
    # differential runs under caller mutation): no request to the Lean driver is needed for the second tie
    fallback_without_model_requests=True,
    rule='seeded data sets x settings x operation sequences: construct, read, caller mutates coordinate / value '
         'arrays, caller mutates returned lag edges, clone, pickle round trip, modify clone; seeded k-means binning, '
         'pair sampling and jackknife subsets repeated in-process and in two fresh subprocesses; distinct = distinct '
         '(settings, operation); non-trivial = every instance with at least 2 non-empty classes',
    trusted=['copy.deepcopy / pickle / process-level determinism are runtime behaviour: checked differentially only'],
    assumptions=[])


def obs(V):
    with quiet():
        return dict(bins=np.asarray(V.bins, float).tolist(), counts=np.asarray(V.bin_count).tolist(),
                    exp=np.asarray(V.experimental, float).tolist(), params=[float(p) for p in V.parameters],
                    values=np.asarray(V.values, float).tolist(), coords=np.asarray(V.coordinates, float).tolist())


def same(a, b, tol=1e-12):
    return (all_close(a['bins'], b['bins'], rel=tol) and a['counts'] == b['counts'] and all_close(a['exp'], b['exp'], rel=tol)
            and all_close(a['params'], b['params'], rel=1e-9) and a['values'] == b['values'] and a['coords'] == b['coords'])


def gen(ctx):
    rng = ctx.rng
    n = int(rng.integers(18, 36))
    coords = gen_coords(rng, n, dim=2, kind=str(rng.choice(['uniform', 'clustered'])))
    values = gen_values(rng, coords, 'field')
    kw = dict(n_lags=int(rng.integers(4, 9)), bin_func=str(rng.choice(['even', 'uniform', 'kmeans', 'ward', 'sturges'])),
              estimator=str(rng.choice(['matheron', 'cressie', 'dowd'])), model=str(rng.choice(['spherical', 'exponential'])),
              maxlag=(None if rng.random() < 0.5 else 'median'))
    storage = str(rng.choice(['raw', 'raw', 'ms', 'sparse']))
    if storage == 'sparse':
        kw['maxlag'] = float(np.ptp(coords, axis=0).max() * 0.7)
    return dict(coords=coords.tolist(), values=values.tolist(), kw=kw, storage=storage,
                cross=bool(rng.random() < 0.15))


def build(case, coords, values):
    kw = dict(case['kw'])
    with quiet():
        if case['storage'] == 'ms':
            return Variogram(MetricSpace(coords, 'euclidean'), values, **kw)
        return Variogram(coords, values, **kw)


@guarded
def check_case(ctx, case):
    coords = np.array(case['coords'], float)
    values = np.array(case['values'], float)
    if case['cross']:
        values = np.column_stack([values, values[::-1] * 0.5 + 1])
    c0, v0 = coords.copy(), values.copy()
    try:
        V = build(case, coords, values)
        base = obs(V)
    except (ValueError, RuntimeError) as e:
        ctx.reject(type(e).__name__ + ':' + str(e)[:30])
        return
    tag = (case['kw']['bin_func'], case['kw']['estimator'], case['storage'], case['cross'])
    ctx.count('bin:' + case['kw']['bin_func'])
    ctx.count('storage:' + case['storage'])
    nonempty = sum(1 for c in base['counts'] if c > 0)

    def reg(op):
        ctx.case(signature=(tag, op) if nonempty >= 2 else None, stream='isolation',
                 sample=dict(op=op, kw=case['kw'], storage=case['storage']))
        ctx.count('op:' + op)

    def fail(kind, detail, **sig):
        ctx.violation(kind, detail, case, signature=dict(kind=kind, **sig))

    # construction and reads never modify the caller's arrays
    reg('construct+read')
    if not (np.array_equal(coords, c0) and np.array_equal(values, v0)):
        return fail('caller-array-modified', 'construction / reading changed the caller\'s coordinate or value array')
    # repeated construction: identical results
    reg('repeat')
    again = obs(build(case, c0.copy(), v0.copy()))
    if not same(again, base, tol=1e-9 if case['kw']['bin_func'] in ('kmeans', 'ward') else 1e-12):
        return fail('not-reproducible', 'two constructions with identical inputs differ')
    # memory sharing of stored inputs
    reg('shares-memory')
    with quiet():
        if np.shares_memory(np.asarray(V.values), values) or (V._co_variable is not None and np.shares_memory(V._co_variable, values)):
            return fail('alias-values', 'the stored values share memory with the caller\'s array', field='values')
        if np.shares_memory(np.asarray(V.coordinates), coords):
            return fail('alias-coordinates', 'the stored coordinates share memory with the caller\'s array', field='coordinates')
    # later changes of the caller's arrays do not affect the instance
    reg('caller-mutation')
    values += 1000.0
    coords *= 3.0
    after = obs(V)
    if not same(after, base):
        what = [k for k in base if base[k] != after[k]]
        return fail('affected-by-caller-mutation', 'results changed after the caller modified its arrays: %r' % what,
                    field='values' if 'values' in what else 'coordinates')
    # fresh caches too (drop them, recompute)
    with quiet():
        V.n_lags = V.n_lags
    after2 = obs(V)
    if not same(after2, base):
        what = [k for k in base if base[k] != after2[k]]
        return fail('affected-by-caller-mutation', 'after recomputation the results follow the caller\'s later changes: %r'
                    % what, field='values' if 'values' in what else 'coordinates')
    # ... and a forced re-computation of everything derived from the observations does not pick them up either
    with quiet():
        V.preprocessing(force=True)
    after3 = obs(V)
    if not same(after3, base):
        what = [k for k in base if base[k] != after3[k]]
        return fail('affected-by-caller-mutation', 'after preprocessing(force=True) the results follow the caller\'s later '
                    'changes: %r' % what, field='values' if 'values' in what or 'exp' in what else 'coordinates')
    # observations handed over in other array-like containers (np.asarray of them shares the caller's memory):
    # later in-place changes of the container must not reach the instance either
    if not case['cross']:
        import array as _array

        class _Sub(np.ndarray):
            pass
        containers = [('masked', lambda a: np.ma.MaskedArray(a.copy())), ('subclass', lambda a: a.copy().view(_Sub)),
                      ('array.array', lambda a: _array.array('d', a.tolist()))]
        try:
            import pandas as _pd
            containers.append(('series', lambda a: _pd.Series(a.copy())))
        except ImportError:
            pass
        kind, mk = containers[int(ctx.rng.integers(0, len(containers)))]
        reg('container:' + kind)
        try:
            box = mk(v0)
            Vc = build(case, c0.copy(), box)
            bc = obs(Vc)
            for i in range(len(v0)):
                box[i] = box[i] * 2.0 + 1000.0
            with quiet():
                Vc.preprocessing(force=True)
            ac = obs(Vc)
            if not same(ac, bc):
                what = [k for k in bc if bc[k] != ac[k]]
                return fail('affected-by-caller-mutation', 'observations given as %s: after the caller changed the container in '
                            'place (and a forced re-computation) the results changed: %r' % (kind, what), field='values')
        except (ValueError, RuntimeError, TypeError) as e:
            ctx.reject('container:%s:%s' % (kind, type(e).__name__))
    # a MetricSpace built from the caller's coordinate array and changed by the caller *before* its distances were ever
    # computed: the space holds the coordinates it was given
    if case['kw'].get('maxlag') is None or not isinstance(case['kw'].get('maxlag'), float) or case['kw']['maxlag'] < 1:
        reg('metricspace-before-first-use')
        try:
            cc = c0.copy()
            with quiet():
                msl = MetricSpace(cc, 'euclidean')
                cc *= 3.0
                cc += 17.0
                Vm = Variogram(msl, v0.copy(), **case['kw'])
                Vr = Variogram(MetricSpace(c0.copy(), 'euclidean'), v0.copy(), **case['kw'])
            om, orr = obs(Vm), obs(Vr)
            if not same(om, orr, tol=1e-9 if case['kw']['bin_func'] in ('kmeans', 'ward') else 1e-12):
                what = [k for k in orr if orr[k] != om[k]]
                return fail('affected-by-caller-mutation', 'a MetricSpace whose coordinate array the caller changed before the '
                            'distances were first computed gives other results: %r' % what, field='coordinates')
        except (ValueError, RuntimeError) as e:
            ctx.reject('lazy-metricspace:' + type(e).__name__)
    # returned lag edges are a copy
    reg('mutate-returned-bins')
    with quiet():
        b = V.bins
        b[:] = -1.0
        if not all_close(np.asarray(V.bins, float).tolist(), base['bins'], rel=0):
            return fail('bins-not-a-copy', 'modifying the returned lag edges changed the instance')
    # clone and pickle round trip
    for name, mk in (('clone', lambda: V.clone()), ('pickle', lambda: pickle.loads(pickle.dumps(V)))):
        reg(name)
        try:
            with quiet():
                W = mk()
            ow = obs(W)
        except Exception as e:
            return fail(name + '-fails', '%s: %s' % (type(e).__name__, e))
        if not same(ow, base, tol=1e-9 if case['kw']['bin_func'] in ('kmeans', 'ward') else 1e-12):
            return fail(name + '-differs', '%s yields different observable results' % name)
        with quiet():
            kw_before = repr(sorted((k, repr(v)) for k, v in V.describe().get('kwargs', {}).items()))
            W.update_kwargs(binning_random_state=12345, entropy_bins=17)
            kw_after = repr(sorted((k, repr(v)) for k, v in V.describe().get('kwargs', {}).items()))
        if kw_before != kw_after:
            return fail(name + '-not-isolated', 'update_kwargs on the %s changed the keyword settings of the original: %s -> %s'
                        % (name, kw_before, kw_after))
        with quiet():
            W.n_lags = W.n_lags + 2 if W._bin_func_name not in ('sturges',) else W.n_lags
            W.estimator = 'dowd' if case['kw']['estimator'] != 'dowd' else 'matheron'
            W.values = np.asarray(W.values) * 2 if not case['cross'] else W.values
            _ = W.experimental
        if not same(obs(V), base):
            return fail(name + '-not-isolated', 'changing the %s changed the original' % name)
    # clone / pickle of an instance that is not in its freshly constructed state: lag edges assigned through `bins`
    # (the binning function stays set) must survive the copy
    reg('copy-after-bins-assignment')
    try:
        V3 = build(case, c0.copy(), v0.copy())
        with quiet():
            e3 = np.asarray(V3.bins, float)
            V3.bins = (e3 * 0.9).tolist()
        b3 = obs(V3)
    except (ValueError, RuntimeError) as e:
        ctx.reject('bins-assignment:' + type(e).__name__)
        b3 = None
    if b3 is not None:
        for name, mk in (('clone', lambda: V3.clone()), ('pickle', lambda: pickle.loads(pickle.dumps(V3)))):
            try:
                with quiet():
                    W3 = mk()
                ow3 = obs(W3)
            except Exception as e:
                return fail(name + '-fails', 'after bins=...: %s: %s' % (type(e).__name__, e))
            if not same(ow3, b3, tol=1e-12):
                what = [k for k in b3 if b3[k] != ow3[k]]
                return fail(name + '-differs', '%s of an instance whose lag edges were assigned through `bins` yields '
                            'different observable results: %r (edges %r vs %r)' % (name, what, ow3['bins'][:4], b3['bins'][:4]))
    # kriging keeps its own copy of the values
    if not case['cross']:
        reg('kriging-values')
        vv = v0.copy()
        with quiet():
            ok = OrdinaryKriging(V, min_points=2, max_points=6, coordinates=c0.copy(), values=vv)
            z1 = ok.transform(c0[:5, 0] + 0.5, c0[:5, 1] + 0.5)
            vv += 50
            z2 = ok.transform(c0[:5, 0] + 0.5, c0[:5, 1] + 0.5)
        if not all_close(z1.tolist(), z2.tolist(), rel=0):
            return fail('kriging-alias-values', 'kriging results follow later changes of the caller\'s value array')
        reg('kriging-values-metricspace')
        vv = v0.copy()
        with quiet():
            okm = OrdinaryKriging(V, min_points=2, max_points=6, coordinates=MetricSpace(c0.copy(), 'euclidean'), values=vv)
            z1 = okm.transform(c0[:5, 0] + 0.5, c0[:5, 1] + 0.5)
            vv += 50
            z2 = okm.transform(c0[:5, 0] + 0.5, c0[:5, 1] + 0.5)
        if not all_close(z1.tolist(), z2.tolist(), rel=0):
            return fail('kriging-alias-values', 'kriging (coordinates as MetricSpace) follows later changes of the '
                        'caller\'s value array')


SEEDED_SNIPPET = r'''
import sys, json, warnings
warnings.filterwarnings('ignore')
import numpy as np
from skgstat import Variogram
d = json.loads(sys.stdin.read())
c, v = np.array(d['coords']), np.array(d['values'])
out = {}
V = Variogram(c, v, bin_func='kmeans', n_lags=5)
out['kmeans'] = V.bins.tolist()
V2 = Variogram(c, v, samples=0.6, binning_random_state=7, n_lags=4)
out['sampled'] = [V2.bins.tolist(), V2.experimental.tolist()]
V3 = Variogram(c, v, n_lags=5, maxlag='median')
out['jackknife'] = float(V3.cross_validate(n=8, seed=11))
print(json.dumps(out))
'''


@guarded
def check_seeded(ctx):
    rng = ctx.rng
    coords = gen_coords(rng, 30, dim=2, kind='uniform')
    values = gen_values(rng, coords, 'field')
    payload = json.dumps(dict(coords=coords.tolist(), values=values.tolist()))
    outs = []
    env = dict(os.environ)
    for k in range(2):
        p = subprocess.run(['/venv/bin/python', '-c', SEEDED_SNIPPET], input=payload.encode(), stdout=subprocess.PIPE,
                           stderr=subprocess.DEVNULL, env=env, cwd='/tmp', timeout=600)
        lines = [l for l in p.stdout.decode().split('\n') if l.startswith('{')]
        if p.returncode != 0 or not lines:
            ctx.reject('subprocess-failed')
            return
        outs.append(json.loads(lines[-1]))
    ctx.case(signature=('seeded', 'processes'), stream='determinism', sample=dict(op='two fresh processes', keys=list(outs[0])))
    ctx.count('op:two-processes')
    a, b = outs
    case = dict(coords=coords.tolist(), values=values.tolist(), seeded=True)
    if not all_close(a['kmeans'], b['kmeans'], rel=1e-9):
        ctx.violation('not-reproducible', 'seeded k-means edges differ between two processes: %r vs %r' % (
            a['kmeans'], b['kmeans']), case, signature=dict(kind='not-reproducible', what='kmeans'))
    if repr(a['sampled']) != repr(b['sampled']):
        ctx.violation('not-reproducible', 'seeded pair sampling differs between two processes', case,
                      signature=dict(kind='not-reproducible', what='sampled'))
    if a['jackknife'] != b['jackknife'] and not (math.isnan(a['jackknife']) and math.isnan(b['jackknife'])):
        ctx.violation('not-reproducible', 'seeded jackknife differs between two processes: %r vs %r' % (
            a['jackknife'], b['jackknife']), case, signature=dict(kind='not-reproducible', what='jackknife'))


@guarded
def check_seeded_inprocess(ctx):
    """seeded pair sampling / k-means / jackknife subsets: two constructions in one process agree, for
    several seeds including 0"""
    rng = ctx.rng
    coords = gen_coords(rng, int(rng.integers(20, 40)), dim=2, kind='uniform')
    values = gen_values(rng, coords, 'field')
    for seed in (0, 1, int(rng.integers(2, 10 ** 6))):
        case = dict(coords=coords.tolist(), values=values.tolist(), seeded=True, seed=seed)
        res = []
        for rep in range(2):
            np.random.seed(int(rng.integers(0, 2 ** 31)))      # the global stream must not matter
            with quiet():
                V = Variogram(coords.copy(), values.copy(), samples=0.6, binning_random_state=seed, n_lags=4)
                W = Variogram(coords.copy(), values.copy(), bin_func='kmeans', binning_random_state=seed, n_lags=4)
                U = Variogram(coords.copy(), values.copy(), n_lags=5, maxlag='median')
                res.append((np.asarray(V.bins).tolist(), np.asarray(V.experimental).tolist(), np.asarray(V.bin_count).tolist(),
                            np.asarray(W.bins).tolist(), float(U.cross_validate(n=6, seed=seed))))
        ctx.case(signature=('seeded-inprocess', seed), stream='determinism', sample=dict(op='seeded repeat', seed=seed))
        ctx.count('op:seeded-repeat')
        a, b = res
        if repr(a[:3]) != repr(b[:3]):
            ctx.violation('not-reproducible', 'pair sampling with binning_random_state=%r differs between two '
                          'constructions: counts %r vs %r' % (seed, a[2], b[2]), case,
                          signature=dict(kind='not-reproducible', what='sampled', seed_zero=seed == 0))
        if not all_close(a[3], b[3], rel=1e-9):
            ctx.violation('not-reproducible', 'seeded k-means (%r) differs between two constructions' % seed, case,
                          signature=dict(kind='not-reproducible', what='kmeans'))
        if a[4] != b[4] and not (math.isnan(a[4]) and math.isnan(b[4])):
            ctx.violation('not-reproducible', 'seeded jackknife (%r) differs between two calls' % seed, case,
                          signature=dict(kind='not-reproducible', what='jackknife'))


@guarded
def check_sampled_copies(ctx):
    """clone / pickle round trip of an instance that works on a seeded *sample* of the point pairs: the copy holds the
    same sample - identical results right away, and after the same re-binning on both"""
    rng = ctx.rng
    coords = gen_coords(rng, int(rng.integers(24, 40)), dim=2, kind='uniform')
    values = gen_values(rng, coords, 'field')
    seed = int(rng.choice([0, 1, int(rng.integers(2, 10 ** 6))]))
    case = dict(coords=coords.tolist(), values=values.tolist(), sampled_copy=True, seed=seed)
    try:
        with quiet():
            V = Variogram(coords.copy(), values.copy(), samples=float(rng.choice([0.5, 0.7])), binning_random_state=seed,
                          n_lags=6)
            if rng.random() < 0.5:
                np.asarray(V.experimental)          # computed before the copy, or still lazy
    except (ValueError, RuntimeError) as e:
        ctx.reject('sampled:' + type(e).__name__)
        return
    for name, mk in (('clone', lambda: V.clone()), ('pickle', lambda: pickle.loads(pickle.dumps(V)))):
        ctx.case(signature=('sampled-' + name, seed), stream='determinism', sample=dict(op='sampled ' + name, seed=seed))
        ctx.count('op:sampled-' + name)
        with quiet():
            C = mk()
            first = (np.asarray(V.distance, float).tolist(), np.asarray(C.distance, float).tolist())
            a0, b0 = obs(V), obs(C)
            V.n_lags = 4
            C.n_lags = 4
            a1, b1 = obs(V), obs(C)
            V.n_lags = 6
        if first[0] != first[1]:
            ctx.violation('copy-differs', '%s of a variogram on sampled pairs (seed %r): the copy works on other pair distances '
                          '(%d vs %d stored)' % (name, seed, len(first[0]), len(first[1])), case,
                          signature=dict(kind='copy-differs', how=name, sampled=True))
        elif not same(a0, b0) or not same(a1, b1):
            ctx.violation('copy-differs', '%s of a variogram on sampled pairs (seed %r): results differ%s' % (
                name, seed, '' if not same(a0, b0) else ' after n_lags = 4 on both'), case,
                signature=dict(kind='copy-differs', how=name, sampled=True))


def run(ctx):
    for k in range(ctx.n(30, 500)):
        check_case(ctx, gen(ctx))
    for k in range(ctx.n(3, 20)):
        check_sampled_copies(ctx)
    for k in range(ctx.n(2, 10)):
        check_seeded_inprocess(ctx)
    for k in range(ctx.n(1, 4)):
        check_seeded(ctx)
    ctx.lean.flush()


def replay(ctx, body):
    if body['case'].get('sampled_copy'):
        raise SystemExit('sampled-copy replays are re-run through the seeded run')
    c = body['case']
    if c.get('seeded'):
        check_seeded(ctx)
    else:
        check_case(ctx, c)
