"""C19 - uncertainty propagation: ordered, reproducible bounds; source left untouched."""
import math
import copy
import numpy as np
from skgstat import Variogram
from skgstat.util.uncertainty import propagate

from .common import quiet, frs, fr, parse_nums, all_close, close, gen_coords, gen_values
from .common import guarded

INFO = dict(
    rule='seeded variograms x sigma >= 0 (incl. 0) x q in [0, 100] (incl. odd and fractional) x num_iter x evaluated '
         'quantity {experimental, parameter, model} x seeds; the Monte-Carlo members are re-created independently '
         '(same generator calls) and their percentiles taken by the Lean model; distinct = distinct (evalf, q, sigma, '
         'rounded bounds); non-trivial = upper > lower somewhere',
    trusted=['numpy Generator stream (members are re-created with the same calls)', 'joblib (sequential here)'],
    assumptions=[])


def gen(ctx):
    rng = ctx.rng
    n = int(rng.integers(18, 32))
    unit = bool(rng.random() < 0.25)           # coordinates in the unit square: resolved maxlag < 1 (D11)
    coords = gen_coords(rng, n, dim=2, kind='uniform', extent=1.0 if unit else 100.0)
    values = gen_values(rng, coords * (100.0 if unit else 1.0), 'field')
    kw = dict(n_lags=int(rng.integers(4, 8)), maxlag=(None if rng.random() < 0.4 else str(rng.choice(['median', 'mean']))
                                                      if rng.random() < 0.6 else 0.7),
              model=str(rng.choice(['spherical', 'exponential'])), estimator=str(rng.choice(['matheron', 'cressie'])),
              bin_func=str(rng.choice(['even', 'even', 'uniform', 'kmeans', 'ward'])))
    if rng.random() < 0.15 and not unit:
        kw['maxlag'] = 400.0        # an absolute maximum lag beyond the largest distance (dense MetricSpace below)
    return dict(coords=coords.tolist(), values=values.tolist(), kw=kw, unit=unit,
                sigma=float(rng.choice([0.0, 0.3, 0.3, 1.5])), q=float(rng.choice([0, 0, 0, 5, 10, 25, 33, 7.5, 50, 100])),
                num_iter=int(rng.choice([9, 15, 30])), seed=int(rng.integers(0, 10 ** 6)),
                evalf=str(rng.choice(['experimental', 'experimental', 'parameter', 'model'])),
                # the source carries settings of its own: obs_sigma given to the constructor (the documented
                # shortcut), or set later through update_kwargs
                src_kwargs=str(rng.choice(['none', 'none', 'ctor_obs_sigma', 'update_obs_sigma'])),
                # seeds arrive as Python ints or NumPy integer scalars
                seed_type=str(rng.choice(['int', 'int', 'int64', 'int32', 'uint32'])),
                # several evaluation targets in one call, requested in any order: the documented order of the
                # returned intervals is [experimental, parameter, model]
                multi=[['parameter', 'model'], ['model', 'parameter'], ['model', 'experimental', 'parameter'],
                       ['experimental', 'model'], ['parameter', 'experimental']][int(rng.integers(0, 5))]
                if rng.random() < 0.45 else None)


def snapshot(V):
    with quiet():
        return dict(values=np.asarray(V.values).tolist(), bins=np.asarray(V.bins).tolist(),
                    exp=np.asarray(V.experimental).tolist(), params=[float(p) for p in V.parameters],
                    descr=repr(sorted((k, repr(v)) for k, v in V.describe()['params'].items())),
                    kwargs=repr(sorted((k, repr(v)) for k, v in V.describe().get('kwargs', {}).items())),
                    conf=repr(np.asarray(getattr(V, '_experimental_conf_interval', None), float).tolist())
                    if getattr(V, '_experimental_conf_interval', None) is not None else None)


def members(V, case):
    """independent re-creation of the Monte-Carlo members (what `propagate` documents)"""
    rng = np.random.default_rng(case['seed'])
    out = []
    kw = dict(case['kw'])
    for it in range(case['num_iter']):
        vals = rng.normal(np.asarray(V.values), case['sigma'], size=len(V.values))
        with quiet():
            W = Variogram(V.metric_space, vals, **dict(kw, maxlag=case['kw']['maxlag']))
            if case['evalf'] == 'experimental':
                out.append(np.asarray(W.experimental, float))
            elif case['evalf'] == 'parameter':
                out.append(np.asarray(W.parameters, float))
            else:
                x = np.linspace(0, np.max(W.bins), 100)
                out.append(np.asarray(W.fitted_model(x), float))
    return np.array(out)


@guarded
def check_case(ctx, case):
    coords = np.array(case['coords'], float)
    values = np.array(case['values'], float)
    try:
        sk = case.get('src_kwargs', 'none')
        with quiet():
            if sk == 'ctor_obs_sigma':
                V = Variogram(coords, values, obs_sigma=0.25, **case['kw'])
            else:
                V = Variogram(coords, values, **case['kw'])
            if sk == 'update_obs_sigma':
                V.update_kwargs(obs_sigma=0.25)
            kwargs_now = dict(V.describe().get('kwargs', {}))
        if sk != 'none' and kwargs_now.get('obs_sigma') != 0.25:
            ctx.violation('source-modified', 'the source was given obs_sigma=0.25 (%s) but its settings report %r' % (
                sk, kwargs_now), case, signature=dict(kind='source-modified'))
            return
        ctx.count('source_kwargs:' + sk)
        before = snapshot(V)
        st = case.get('seed_type', 'int')
        seed_obj = case['seed'] if st == 'int' else getattr(np, st)(case['seed'])
        args = dict(source='values', sigma=case['sigma'], evalf=case['evalf'], num_iter=case['num_iter'],
                    seed=seed_obj, q=case['q'])
        with quiet():
            r1 = np.asarray(propagate(V, **args), float)
            r2 = np.asarray(propagate(V, **args), float)
        after = snapshot(V)
    except (RuntimeError, ValueError) as e:
        ctx.reject(type(e).__name__ + ':' + str(e)[:30])
        return
    ctx.count('evalf:' + case['evalf'])
    ctx.count('sigma:%g' % case['sigma'])
    ctx.count('q:%g' % case['q'])
    nontriv = bool(np.nanmax(r1[:, 2] - r1[:, 0]) > 0) if r1.size else False
    ctx.case(signature=(case['evalf'], case['q'], case['sigma'], tuple(np.round(r1[:, 1], 6))) if nontriv or case['sigma'] == 0 else None,
             stream='propagate', sample=dict(evalf=case['evalf'], q=case['q'], sigma=case['sigma'], num_iter=case['num_iter'],
                                             first=r1[0].tolist() if len(r1) else None))

    def fail(kind, detail, **sig):
        ctx.violation(kind, detail, case, signature=dict(kind=kind, **sig))

    if repr(before) != repr(after):
        what = [k for k in before if repr(before[k]) != repr(after[k])]
        return fail('source-modified', 'propagate changed the source variogram: %r' % what)
    if not np.array_equal(r1, r2, equal_nan=True):
        return fail('not-reproducible', 'same seed, different intervals')
    ok_rows = ~np.isnan(r1).any(axis=1)
    if np.any(r1[ok_rows, 0] > r1[ok_rows, 1] * (1 + 1e-12) + 1e-300) or np.any(r1[ok_rows, 1] > r1[ok_rows, 2] * (1 + 1e-12) + 1e-300):
        return fail('not-ordered', 'lower <= median <= upper violated: %r' % r1[ok_rows][:3].tolist())
    # several targets in one call: one interval matrix per requested target, in the documented order, each equal to
    # what the single-target call with the same seed returns (the members are the same)
    if case.get('multi'):
        order = [e for e in ('experimental', 'parameter', 'model') if e in case['multi']]
        try:
            with quiet():
                rm = propagate(V, **dict(args, evalf=list(case['multi'])))
                singles = [r1 if e == case['evalf'] else np.asarray(propagate(V, **dict(args, evalf=e)), float) for e in order]
        except (RuntimeError, ValueError) as e:
            ctx.reject('multi:' + type(e).__name__)
            singles = None
        if singles is not None:
            ctx.count('multi_evalf:' + '+'.join(case['multi']))
            if not isinstance(rm, list) or len(rm) != len(order):
                return fail('multi-evalf', 'evalf=%r returns %s instead of %d interval matrices' % (
                    case['multi'], type(rm).__name__, len(order)))
            def cb_targets(f, req=list(case['multi']), n=len(rm)):
                model_order = f[0].split()
                if model_order != order or n != len(model_order):
                    ctx.tie_break('model: a call with targets %r returns the matrices of %r, the documented order gives %r '
                                  '(implementation returned %d)' % (req, model_order, order, n))
            ctx.lean.ask(['c19', 'targets', ' '.join(case['multi'])], cb_targets)
            for name, got, want in zip(order, rm, singles):
                got = np.asarray(got, float)
                if got.shape != want.shape or not all_close(got.ravel().tolist(), want.ravel().tolist(), rel=1e-9,
                                                            abs_=1e-9 * max(1e-12, float(np.nanmax(np.abs(want))))):
                    return fail('multi-evalf', 'evalf=%r: the interval matrix in the position documented for %r has shape %r and '
                                'differs from the single-target result (shape %r) with the same seed' % (
                                    case['multi'], name, got.shape, want.shape))
    # zero noise: all three equal the source's own result
    if case['sigma'] == 0:
        with quiet():
            own = np.asarray(V.experimental if case['evalf'] == 'experimental' else V.parameters if case['evalf'] == 'parameter'
                             else V.fitted_model(np.linspace(0, np.max(V.bins), 100)), float)
        scale = max(1e-12, float(np.nanmax(np.abs(own))))
        for col in range(3):
            if not all_close(r1[:, col].tolist(), own.tolist(), rel=1e-6, abs_=1e-6 * scale):
                ml = V.maxlag
                return fail('zero-noise', 'sigma=0 but column %d = %r differs from the source result %r' % (
                    col, r1[:, col].tolist()[:4], own.tolist()[:4]),
                    resolved_maxlag_below_one=bool(ml is not None and ml < 1))
        return
    # percentiles of the independently re-created members through the model
    if case['unit'] and V.maxlag is not None and V.maxlag < 1:
        ctx.count('skipped_members_resolved_maxlag_below_one')
        return
    try:
        M = members(V, case)
    except (RuntimeError, ValueError):
        ctx.reject('member-fit-failed')
        return
    if M.shape[1] != r1.shape[0]:
        return fail('shape', 'result has %d elements, members %d' % (r1.shape[0], M.shape[1]))
    for e in range(0, M.shape[1], max(1, M.shape[1] // 6)):
        col = M[:, e]
        if np.isnan(col).any():
            continue

        def cb(f, e=e):
            spec = [float(v) for v in parse_nums(f[0])]
            defect = [float(v) for v in parse_nums(f[1])]
            got = r1[e].tolist()
            scale = max(1e-12, max(abs(v) for v in spec))
            if not all_close(got, spec, rel=1e-9, abs_=1e-9 * scale):
                fail('percentiles', 'element %d, q=%r: (lower, median, upper) = %r, the q/2-th percentile, median and '
                     '(100-q/2)-th percentile of the members are %r' % (e, case['q'], got, spec),
                     equals_defect_model=bool(all_close(got, defect, rel=1e-9, abs_=1e-9 * scale)))
        ctx.lean.ask(['c19', 'bounds', fr(case['q']), frs(col)], cb)
    # lowering q never narrows
    if case['q'] > 0:
        with quiet():
            r0 = np.asarray(propagate(V, **dict(args, q=case['q'] / 2.0)), float)
        okr = ~np.isnan(r1).any(axis=1) & ~np.isnan(r0).any(axis=1)
        tol = 1e-12 * max(1.0, float(np.nanmax(np.abs(r1))))
        if np.any(r0[okr, 0] > r1[okr, 0] + tol) or np.any(r0[okr, 2] < r1[okr, 2] - tol):
            fail('not-monotone-in-q', 'q=%r gives a narrower interval than q=%r' % (case['q'] / 2.0, case['q']))


def run(ctx):
    for k in range(ctx.n(36, 600)):
        check_case(ctx, gen(ctx))
    ctx.lean.flush()


def replay(ctx, body):
    check_case(ctx, body['case'])
    ctx.lean.flush()
