"""C20 - metric spaces hold true distances; neighbour search = nearest N within range."""
import math
import numpy as np
from scipy import sparse as sp

from skgstat import MetricSpace
from skgstat.MetricSpace import MetricSpacePair, ProbabalisticMetricSpace

from .common import frs, fr, parse_ints, quiet, close, gen_coords, as_caller_dtype
from .common import guarded
from . import vario

INFO = dict(
    rule='seeded point sets in 1-3 dimensions (uniform, clustered, lattice, duplicates) x metrics x max_dist '
         '(none, between distances, equal to an exactly representable occurring distance) x N below / at / above '
         'the in-range count x sample sizes and seeds; distinct = distinct (kind, stored-pair pattern / '
         'neighbour lists); non-trivial = at least 2 distinct rows',
    trusted=['cKDTree (boundary decisions within rounding distance of max_dist are excluded: generator uses '
             'exactly representable ties only)', 'numpy RandomState stream (reproducibility is observed)'],
    assumptions=[])


@guarded
def check_space(ctx, rng):
    dim = int(rng.choice([1, 2, 3]))
    kind = str(rng.choice(['uniform', 'clustered', 'lattice', 'dup']))
    n = int(rng.integers(5, 30))
    coords = gen_coords(rng, n, dim=dim, kind=kind)
    metric = str(rng.choice(['euclidean', 'euclidean', 'cityblock', 'chebyshev']))
    bd = vario.brute_dists(coords, metric)
    bp = vario.brute_pairs(n)
    uniq = np.unique(bd[bd > 0])
    mode = str(rng.choice(['none', 'between', 'exact']))
    if mode == 'none':
        md = None
    elif mode == 'between':
        md = float(rng.uniform(0.2, 1.1) * bd.max())
    else:
        exact = [x for x in uniq if float(x).is_integer()]
        md = float(rng.choice(exact)) if exact else float(rng.uniform(0.3, 0.9) * bd.max())
    case = dict(coords=coords.tolist(), metric=metric, max_dist=md, kind=kind)
    with quiet():
        buf_ = as_caller_dtype(rng, coords.copy())
        ms = MetricSpace(buf_, metric, md)
        if isinstance(buf_, np.ndarray):
            vario.recycle(buf_)      # the space describes the points it was given, not the caller's buffer
        D = ms.dists
    is_sparse = sp.issparse(D)
    ctx.count('space:' + ('sparse' if is_sparse else 'dense'))
    ctx.count('metric:' + metric)
    ctx.count('max_dist:' + mode)
    full = np.zeros((n, n))
    for (i, j), x in zip(bp, bd):
        full[i, j] = full[j, i] = x
    if is_sparse:
        coo = D.tocoo()
        stored = {(int(i), int(j)): float(v) for i, j, v in zip(coo.row, coo.col, coo.data)}
        sig = tuple(sorted(stored))
        ctx.case(signature=('sparse', sig), stream='metric-space',
                 sample=dict(n=n, dim=dim, metric=metric, max_dist=md, stored=len(stored)))
        for (i, j), v in stored.items():
            if not close(v, full[i, j], rel=1e-12, abs_=1e-300):
                ctx.violation('sparse-value', 'stored (%d,%d)=%r, true distance %r' % (i, j, v, full[i, j]), case)
                return
            if (j, i) not in stored:
                ctx.violation('sparse-asymmetric', 'pair (%d,%d) stored, (%d,%d) not' % (i, j, j, i), case)
                return
        for i in range(n):
            for j in range(n):
                if i == j:
                    continue
                d = full[i, j]
                if d <= md * (1 - 1e-12) and (i, j) not in stored:
                    ctx.violation('sparse-missing', 'pair (%d,%d) at distance %r <= max_dist %r is not stored' % (i, j, d, md), case)
                    return
                if d > md * (1 + 1e-12) and (i, j) in stored:
                    ctx.violation('sparse-extra', 'pair (%d,%d) at distance %r > max_dist %r is stored' % (i, j, d, md), case)
                    return
                if d == md and float(md).is_integer() and kind == 'lattice' and metric == 'euclidean' and (i, j) not in stored:
                    ctx.violation('sparse-missing', 'pair (%d,%d) exactly at max_dist %r is not stored' % (i, j, md), case)
                    return
    else:
        D = np.asarray(D)
        ctx.case(signature=('dense', n, dim, metric, tuple(np.round(bd[:5], 9))), stream='metric-space',
                 sample=dict(n=n, dim=dim, metric=metric, max_dist=md))
        if D.shape != (n, n) or not np.array_equal(D, D.T) or np.any(np.diag(D) != 0):
            ctx.violation('dense-shape', 'distance matrix is not symmetric with zero diagonal', case)
            return
        if not np.allclose(D, full, rtol=1e-12, atol=0):
            ctx.violation('dense-value', 'distance matrix differs from the pairwise distances', case)
            return
    # diagonal(idx): condensed distances among a subset
    idx = np.sort(rng.choice(n, size=int(rng.integers(2, min(n, 8) + 1)), replace=False))
    zero_pairs = [p for p, x in zip(bp, bd) if x == 0]
    if zero_pairs and rng.random() < 0.8:
        # co-located points: make sure a zero-distance pair is part of the extracted sub-matrix
        a, b = zero_pairs[int(rng.integers(0, len(zero_pairs)))]
        idx = np.unique(np.concatenate([idx, [a, b]]))
        ctx.count('diagonal_with_colocated_pair')
    # the index list is an arbitrary list: every point once in another order, a reversed order, a shuffled subset
    r = rng.random()
    if r < 0.2:
        idx = rng.permutation(n)
    elif r < 0.3:
        idx = np.arange(n)[::-1].copy()
    elif r < 0.5:
        idx = rng.permutation(idx)
    with quiet():
        sub = np.asarray(ms.diagonal(idx), float)
    want = np.array([full[a, b] for k, a in enumerate(idx) for b in idx[k + 1:]])
    if is_sparse:
        want = np.where(want <= md * (1 + 1e-12), want, np.inf)
        near = np.abs(want - md) <= 1e-12 * md
    else:
        near = np.zeros(len(want), bool)
    ok = len(sub) == len(want) and all(n_ or close(a, b, rel=1e-12) or (math.isinf(a) and math.isinf(b))
                                       for a, b, n_ in zip(sub, want, near))
    if not ok:
        ctx.violation('diagonal', 'diagonal(%r) = %r, expected %r' % (idx.tolist(), sub.tolist(), want.tolist()), case)


@guarded
def check_pair(ctx, rng):
    dim = int(rng.choice([2, 3]))
    kind = str(rng.choice(['uniform', 'lattice', 'clustered']))
    n = int(rng.integers(5, 30))
    m = int(rng.integers(2, 8))
    obs = gen_coords(rng, n, dim=dim, kind=kind)
    if kind == 'lattice':
        q = np.round(rng.uniform(obs.min(0), obs.max(0), size=(m, dim))) + rng.choice([0.0, 0.5])
    else:
        q = rng.uniform(obs.min(0) - 5, obs.max(0) + 5, size=(m, dim))
    metric = str(rng.choice(['euclidean', 'euclidean', 'cityblock']))
    from scipy.spatial.distance import cdist
    rows = cdist(q, obs, metric=metric)
    md = float(rng.choice([rows.max() * 2, np.median(rows), np.quantile(rows, 0.3)]))
    if kind == 'lattice' and rng.random() < 0.5:
        cand = [x for x in np.unique(rows) if float(x).is_integer() and x > 0]
        if cand:
            md = float(rng.choice(cand))
    N = int(rng.choice([1, 2, 3, 5, 40]))
    case = dict(obs=obs.tolist(), query=q.tolist(), metric=metric, max_dist=md, N=N, kind=kind)
    results = {}
    for mode in ('dense', 'sparse'):
        if mode == 'sparse' and metric != 'euclidean':
            continue
        use_md = md if mode == 'sparse' else None
        with quiet():
            pair = MetricSpacePair(MetricSpace(as_caller_dtype(rng, q.copy()), metric, use_md),
                                   MetricSpace(as_caller_dtype(rng, obs.copy()), metric, use_md))
            results[mode] = [list(map(int, pair.find_closest(i, md, N))) for i in range(m)]
    ctx.count('pair:' + kind)
    ctx.count('N:%d' % N)
    sig = tuple(tuple(sorted(r)) for r in results['dense'])
    ctx.case(signature=('find', sig) if len(set(sig)) >= 2 else None, stream='find-closest',
             sample=dict(n=n, m=m, metric=metric, max_dist=md, N=N, first=results['dense'][0]))
    for i in range(m):
        row = rows[i]
        for mode, res in results.items():
            got = res[i]
            inr = [j for j in range(n) if row[j] <= md]
            near = [j for j in range(n) if abs(row[j] - md) <= 1e-12 * md and not float(md).is_integer()]
            if near:
                ctx.count('skipped_boundary')
                continue
            if len(set(got)) != len(got) or any(j not in inr for j in got):
                ctx.violation('find-not-in-range', '%s: query %d returns %r, in range %r' % (mode, i, got, inr), case)
                return
            if len(got) != min(N, len(inr)):
                ctx.violation('find-count', '%s: query %d returns %d points, expected min(N=%d, %d in range)' % (
                    mode, i, len(got), N, len(inr)), case)
                return
            rest = [j for j in inr if j not in got]
            if got and rest and max(row[j] for j in got) > min(row[j] for j in rest):
                ctx.violation('find-not-nearest', '%s: query %d returns %r but %r is nearer' % (
                    mode, i, got, min(rest, key=lambda j: row[j])), case)
                return

        def cb(f, i=i, row=row):
            msel = parse_ints(f[0]) if f[0] else []
            got = results['dense'][i]
            if sorted(float(row[j]) for j in msel) != sorted(float(row[j]) for j in got):
                ctx.violation('find-model', 'query %d: implementation %r, model %r' % (i, got, msel), case)
        ctx.lean.ask(['c07', 'find', 'dense', frs(row), fr(md), str(N)], cb)
        if 'sparse' in results and sorted(float(row[j]) for j in results['sparse'][i]) != \
                sorted(float(row[j]) for j in results['dense'][i]):
            if not any(abs(row[j] - md) <= 1e-12 * md for j in range(n)):
                ctx.violation('find-sparse-dense', 'query %d: dense %r, sparse %r' % (
                    i, results['dense'][i], results['sparse'][i]), case)
                return


@guarded
def check_sampled(ctx, rng):
    n = int(rng.integers(8, 40))
    coords = gen_coords(rng, n, dim=2, kind=str(rng.choice(['uniform', 'lattice'])))
    samples = float(rng.choice([0.3, 0.5, 0.8])) if rng.random() < 0.6 else int(rng.integers(3, n))
    seed = int(rng.choice([0, 1, int(rng.integers(2, 10000))]))
    # seeds arrive as Python ints or as NumPy integer scalars (an element of an index array, rng.integers(...))
    seed_type = str(rng.choice(['int', 'int', 'int64', 'int32', 'uint16']))
    seed_obj = seed if seed_type == 'int' else getattr(np, seed_type)(seed)
    md = None if rng.random() < 0.5 else float(rng.uniform(20, 80))
    case = dict(coords=coords.tolist(), samples=samples, seed=seed, seed_type=seed_type, max_dist=md)
    coords_in = as_caller_dtype(rng, coords)
    mats = []
    for rep in range(2):
        np.random.seed(int(rng.integers(0, 2 ** 31)))      # the global stream must not matter for a seeded space
        with quiet():
            buf_ = coords_in.copy()
            pm = ProbabalisticMetricSpace(buf_, 'euclidean', md, samples=samples, rnd=seed_obj)
            if isinstance(buf_, np.ndarray):
                vario.recycle(buf_)
            D = pm.dists.tocoo()
            mats.append((sorted(zip(D.row.tolist(), D.col.tolist(), D.data.tolist())), pm.lidx.copy(), pm.ridx.copy()))
    ent, lidx, ridx = mats[0]
    ctx.count('sampled')
    ctx.case(signature=('sampled', tuple((a, b) for a, b, _ in ent)[:40]) if len(ent) >= 2 else None,
             stream='sampled', sample=dict(n=n, samples=samples, seed=seed, entries=len(ent)))
    if mats[0][0] != mats[1][0]:
        ctx.violation('sampled-not-reproducible', 'two constructions with seed %s(%d) differ' % (seed_type, seed), case)
        return
    if len(set(lidx.tolist())) != len(lidx) or len(set(ridx.tolist())) != len(ridx):
        ctx.violation('sampled-duplicates', 'sample indices contain duplicates', case)
        return
    L, R = set(lidx.tolist()), set(ridx.tolist())
    for a, b, v in ent:
        true = float(np.sqrt(((coords[a] - coords[b]) ** 2).sum()))
        if a not in L or b not in R or not close(v, true, rel=1e-12, abs_=1e-300):
            ctx.violation('sampled-entry', 'entry (%d,%d)=%r: sampled left=%s right=%s, true distance %r' % (
                a, b, v, a in L, b in R, true), case)
            return
    if md is None:
        if len(ent) + sum(1 for a in L for b in R if a == b or np.all(coords[a] == coords[b])) < len(L) * len(R) - 0:
            pass
    else:
        for a in L:
            for b in R:
                true = float(np.sqrt(((coords[a] - coords[b]) ** 2).sum()))
                if 0 < true <= md * (1 - 1e-12) and not any(x == a and y == b for x, y, _ in ent):
                    ctx.violation('sampled-missing', 'sampled pair (%d,%d) at %r <= %r missing' % (a, b, true, md), case)
                    return


def run(ctx):
    for k in range(ctx.n(90, 1500)):
        check_space(ctx, ctx.rng)
    for k in range(ctx.n(60, 1000)):
        check_pair(ctx, ctx.rng)
    for k in range(ctx.n(40, 600)):
        check_sampled(ctx, ctx.rng)
    ctx.lean.flush()


def replay(ctx, body):
    run(ctx)
