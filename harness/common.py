"""Shared machinery of the correspondence harness.

* exact float -> rational wire encoding and the batch driver for the Lean models
* per-run context: seeded RNG, counters, samples, violations, known-finding matching
"""
import os
import sys
import json
import math
import time
import hashlib
import subprocess
import struct
import warnings
import io
import contextlib
from fractions import Fraction

import numpy as np

ROOT = os.path.dirname(os.path.dirname(os.path.abspath(__file__)))
LEAN_DIR = os.path.join(ROOT, 'lean')
REPO = os.environ.get('SKGSTAT_REPO', '/repo')

os.environ.setdefault('SKGSTAT_VERIF', '1')
warnings.filterwarnings('ignore')


# --------------------------------------------------------------------------- wire
def fr(x):
    """exact rational text of a python/numpy number"""
    if isinstance(x, (int, np.integer)):
        return str(int(x))
    if isinstance(x, Fraction):
        return f'{x.numerator}/{x.denominator}'
    x = float(x)
    if math.isnan(x):
        return 'nan'
    if math.isinf(x):
        return 'inf' if x > 0 else '-inf'
    n, d = x.as_integer_ratio()
    return f'{n}/{d}'


def frs(xs):
    return ' '.join(fr(x) for x in xs)


def ints(xs):
    return ' '.join(str(int(x)) for x in xs)


def parse_num(tok):
    if tok == 'nan':
        return None
    if '/' in tok:
        n, d = tok.split('/')
        return Fraction(int(n), int(d))
    return Fraction(int(tok))


def parse_nums(field):
    return [parse_num(t) for t in field.split()]


def parse_ints(field):
    return [int(t) for t in field.split()]


def parse_floatbits(field):
    out = []
    for t in field.split():
        if t == 'nan':
            out.append(float('nan'))
        else:
            out.append(struct.unpack('<d', struct.pack('<Q', int(t)))[0])
    return out


def floatbits(xs):
    return ' '.join(str(struct.unpack('<Q', struct.pack('<d', float(x)))[0]) for x in xs)


def close(a, b, rel=1e-9, abs_=0.0):
    """a, b: float / Fraction / None(NaN)"""
    an = a is None or (isinstance(a, float) and math.isnan(a))
    bn = b is None or (isinstance(b, float) and math.isnan(b))
    if an or bn:
        return an and bn
    a = float(a)
    b = float(b)
    if a == b:
        return True
    if math.isinf(a) or math.isinf(b):
        return False
    return abs(a - b) <= max(abs_, rel * max(1.0, abs(a), abs(b)))


def all_close(xs, ys, rel=1e-9, abs_=0.0):
    xs = list(xs)
    ys = list(ys)
    return len(xs) == len(ys) and all(close(a, b, rel, abs_) for a, b in zip(xs, ys))


class Lean:
    """Batch driver: queue request lines with callbacks, run the Lean model once."""

    def __init__(self):
        self.lines = []
        self.cbs = []
        self.total = 0
        self.wall = 0.0

    def ask(self, parts, cb):
        if os.environ.get('SKGVERIF_NO_DRIVER'):
            # the generated definitions no longer compile (reported as a broken tie by ./check): the
            # oracles on the implementation still run, model requests are skipped
            self.skipped = getattr(self, 'skipped', 0) + 1
            return
        line = '|'.join(parts)
        assert '\n' not in line
        self.lines.append(line)
        self.cbs.append(cb)

    def flush(self):
        if not self.lines:
            return
        t0 = time.time()
        data = '\n'.join(self.lines) + '\n'
        p = subprocess.run(['lake', 'env', 'lean', '--run', 'Driver.lean'], cwd=LEAN_DIR,
                           input=data.encode(), stdout=subprocess.PIPE, stderr=subprocess.PIPE)
        out = p.stdout.decode().split('\n')
        if out and out[-1] == '':
            out.pop()
        # lean may print warnings of Driver.lean itself on stdout before the first response
        out = [l for l in out if l.startswith('ok|') or l.startswith('err|') or l == 'ok']
        if p.returncode != 0 or len(out) != len(self.lines):
            raise InfraError('lean driver failed: rc=%s, %d responses for %d requests\n%s' % (
                p.returncode, len(out), len(self.lines), p.stderr.decode()[-2000:]))
        lines, cbs = self.lines, self.cbs
        self.lines, self.cbs = [], []
        self.total += len(lines)
        self.wall += time.time() - t0
        for req, resp, cb in zip(lines, out, cbs):
            fields = resp.split('|')
            if fields[0] != 'ok':
                raise InfraError('lean model rejected request %r -> %r' % (req[:300], resp))
            cb(fields[1:])


class InfraError(Exception):
    pass


# --------------------------------------------------------------------------- context
class Ctx:
    def __init__(self, prop, tier, seed, scale=1.0):
        self.prop = prop
        self.tier = tier
        self.seed = seed
        self.scale = scale
        self.rng = np.random.default_rng([seed, int(prop[1:])])
        self.lean = Lean()
        self.evaluations = 0
        self.signatures = set()
        self.samples = []
        self.dist = {}
        self.rejected = {}
        self.violations = []
        self.known_hits = {}
        self.streams = {}
        self.tie_breaks = []
        self.t0 = time.time()

    # sizing ------------------------------------------------------------
    def n(self, quick, thorough):
        k = quick if self.tier == 'quick' else thorough
        return max(1, int(round(k * self.scale)))

    # bookkeeping ---------------------------------------------------------
    def count(self, key, k=1):
        self.dist[key] = self.dist.get(key, 0) + k

    def reject(self, kind):
        self.rejected[kind] = self.rejected.get(kind, 0) + 1

    def case(self, signature=None, sample=None, stream=None):
        """register one evaluated case; signature = hashable for distinct/non-trivial ones"""
        self.evaluations += 1
        if stream:
            self.streams[stream] = self.streams.get(stream, 0) + 1
        if signature is not None:
            self.signatures.add(hashlib.sha1(repr(signature).encode()).hexdigest())
        if sample is not None and len(self.samples) < 6:
            self.samples.append(sample)

    def tie_break(self, what):
        """the executable model and the implementation disagree on something that is not itself an
        observable of the property (reported as a violation only if no failing input is found)"""
        if len(self.tie_breaks) < 20:
            self.tie_breaks.append(what)

    def violation(self, kind, detail, case, signature=None):
        """a concrete input on which the property fails on the implementation"""
        self.violations.append(dict(kind=kind, detail=detail, case=case,
                                    signature=signature or {}))


def guarded(fn):
    """A case function of a harness: an exception escaping from the implementation (a frame inside
    skgstat) on a generated input is a concrete failing input (`crash`), not an infrastructure failure;
    anything raised by the harness itself or by the Lean driver still aborts the run."""
    import functools
    import traceback

    @functools.wraps(fn)
    def wrapper(ctx, *args, **kw):
        try:
            return fn(ctx, *args, **kw)
        except InfraError:
            raise
        except Exception as e:
            frames = traceback.extract_tb(e.__traceback__)
            impl = [f for f in frames if '/skgstat/' in f.filename.replace('\\', '/') and '/harness/' not in f.filename]
            if not impl:
                raise
            case = next((a for a in args if isinstance(a, dict)), None)
            if case is None:
                case = dict(args=[repr(a)[:2000] for a in args])
            last = impl[-1]
            if isinstance(e, MemoryError) and last.name == 'auto_derived_lags':
                # numpy.histogram_bin_edges asked for an astronomically large number of classes (a rule such as 'fd' on
                # tie-heavy distances with a tiny inter-quartile range): NumPy's rule refuses the data, like its
                # ValueError('Too many bins for data range') - a rejected input, the rule is a contract (C02)
                ctx.reject('numpy-rule-too-many-bins:MemoryError')
                return None
            ctx.violation('crash', '%s: %s (raised at %s:%d in %s)' % (
                type(e).__name__, str(e)[:300], os.path.basename(last.filename), last.lineno, last.name), case,
                signature=dict(kind='crash', exception=type(e).__name__))
            return None
    return wrapper


def jsonable(o):
    if isinstance(o, dict):
        return {str(k): jsonable(v) for k, v in o.items()}
    if isinstance(o, (list, tuple)):
        return [jsonable(v) for v in o]
    if isinstance(o, np.ndarray):
        return jsonable(o.tolist())
    if isinstance(o, (np.integer,)):
        return int(o)
    if isinstance(o, (np.floating,)):
        return float(o)
    if isinstance(o, Fraction):
        return f'{o.numerator}/{o.denominator}'
    if isinstance(o, (np.bool_,)):
        return bool(o)
    if isinstance(o, float) and (math.isnan(o) or math.isinf(o)):
        return repr(o)
    if isinstance(o, (str, int, float, bool)) or o is None:
        return o
    return repr(o)


@contextlib.contextmanager
def quiet():
    """swallow the library's print() noise"""
    buf = io.StringIO()
    with contextlib.redirect_stdout(buf):
        with warnings.catch_warnings():
            warnings.simplefilter('ignore')
            yield buf


# --------------------------------------------------------------------------- generators
def gen_coords(rng, n, dim=2, kind='uniform', extent=100.0):
    """structured coordinate sets; 'lattice' produces exact integer coordinates (distances that
    hit lag edges exactly), 'dup' adds co-located points"""
    if kind == 'uniform':
        c = rng.uniform(0, extent, size=(n, dim))
    elif kind == 'clustered':
        k = max(2, n // 8)
        centers = rng.uniform(0, extent, size=(k, dim))
        idx = rng.integers(0, k, size=n)
        c = centers[idx] + rng.normal(0, extent / 30.0, size=(n, dim))
    elif kind == 'lattice':
        side = int(math.ceil(n ** (1.0 / dim))) + 2
        cells = rng.choice(side ** dim, size=n, replace=False)
        c = np.array(np.unravel_index(cells, (side,) * dim)).T.astype(float)
    elif kind == 'dup':
        m = max(3, n - max(1, n // 6))
        base = rng.uniform(0, extent, size=(m, dim))
        extra = base[rng.integers(0, m, size=n - m)]
        c = np.vstack([base, extra])
        rng.shuffle(c, axis=0)
    elif kind == 'twoclusters':
        h = n // 2
        a = rng.uniform(0, extent / 10.0, size=(h, dim))
        b = rng.uniform(0, extent / 10.0, size=(n - h, dim)) + extent
        c = np.vstack([a, b])
    else:
        raise ValueError(kind)
    return np.ascontiguousarray(c, dtype=float)


def gen_values(rng, coords, kind='field'):
    n = len(coords)
    if kind == 'field':
        w = rng.normal(size=coords.shape[1])
        v = np.sin(coords @ w / 25.0) * 3 + rng.normal(0, 0.5, size=n) + 10
    elif kind == 'int':
        v = rng.integers(-5, 20, size=n).astype(float)
    elif kind == 'noise':
        v = rng.normal(0, 2, size=n)
    else:
        raise ValueError(kind)
    return v


def as_caller_dtype(rng, arr, p=0.4):
    """the same numbers as the caller might hold them: integer-valued arrays as (unsigned) integer dtypes, others
    unchanged - value-preserving, so every oracle computed from the float copy stays valid"""
    a = np.asarray(arr)
    if a.size and np.all(a == np.round(a)) and np.all(np.abs(a) < 30000) and rng.random() < p:
        kinds = ['int64', 'int32', 'int16']
        if a.min() >= 0:
            kinds += ['uint16', 'uint32'] + (['uint8'] if a.max() < 256 else [])
        return a.astype(str(rng.choice(kinds)))
    return a
