"""Kriging case generation and a faithful per-target re-enactment of `OrdinaryKriging._krige`
whose discrete and algebraic steps are delegated to the Lean model."""
import math
import numpy as np
from scipy.spatial.distance import cdist, pdist, squareform

from skgstat import OrdinaryKriging, Variogram, MetricSpace

from .common import gen_coords, gen_values, quiet, frs, fr, parse_nums, parse_ints, close

MODELS = ['spherical', 'exponential', 'cubic', 'stable', 'matern']
BOUNDED = ['spherical', 'cubic']


def gen_case(rng, nobs=(8, 40), ntargets=(6, 14), models=MODELS, metrics=('euclidean', 'euclidean', 'cityblock'),
             dims=(2, 2, 3), allow_sparse=True):
    dim = int(rng.choice(dims))
    kind = str(rng.choice(['uniform', 'clustered', 'lattice']))
    n = int(rng.integers(nobs[0], nobs[1] + 1))
    coords = gen_coords(rng, n, dim=dim, kind=kind, extent=100.0)
    if kind == 'lattice':
        coords = coords * 7.0
    coords = np.unique(coords, axis=0)
    rng.shuffle(coords, axis=0)
    dup_rows = None
    if rng.random() < 0.25:
        # duplicated observation locations (with their own values): the library keeps the first one
        k = int(rng.integers(1, 4))
        dup_rows = coords[rng.integers(0, len(coords), size=k)]
        coords = np.vstack([coords, dup_rows])
        rng.shuffle(coords, axis=0)
    if dim >= 2 and rng.random() < (0.3 if dim == 2 else 0.6):
        # distinct locations that agree with another observation in all but one coordinate (profiles, boreholes):
        # they are different points and all of them are kept
        k = int(rng.integers(1, 4))
        twins = coords[rng.integers(0, len(coords), size=k)].copy()
        if dup_rows is not None and rng.random() < 0.7:
            twins = np.vstack([dup_rows.copy(), dup_rows.copy()])    # ... of locations that were observed twice
            k = len(twins)
        ax = int(rng.integers(0, dim)) if rng.random() < 0.5 else dim - 1
        twins[:, ax] += rng.choice([-7.0, 3.5, 7.0, 14.0], size=k)
        coords = np.unique(np.vstack([coords, twins]), axis=0) if rng.random() < 0.5 else np.vstack([coords, twins])
        rng.shuffle(coords, axis=0)
    n = len(coords)
    values = gen_values(rng, coords, str(rng.choice(['field', 'int'])))
    model = str(rng.choice(models))
    ext = float(np.ptp(coords, axis=0).max()) or 1.0
    rng_eff = float(ext * rng.choice([0.25, 0.5, 0.8, 1.5]))
    if kind == 'lattice':
        rng_eff = float(rng.choice([14.0, 21.0, 35.0, 70.0]))   # equal to occurring distances
    sill = float(rng.choice([0.5, 2.0, 30.0]))
    nugget = float(rng.choice([0.0, 0.0, 0.1 * sill, 0.4 * sill]))
    vd = dict(model=model, effective_range=rng_eff, sill=sill, nugget=nugget)
    if model == 'stable':
        vd['shape'] = float(rng.choice([0.5, 1.0, 1.5, 1.9]))
    if model == 'matern':
        vd['smoothness'] = float(rng.choice([0.5, 1.5, 3.0]))
    metric = str(rng.choice(metrics))
    vd['dist_func'] = metric
    maxp = int(rng.choice([2, 3, 5, 8, 12, 15]))
    minp = int(rng.choice([1, 2, 3, 5]))
    if minp > maxp:
        minp = maxp
    nt = int(rng.integers(ntargets[0], ntargets[1] + 1))
    lo, hi = coords.min(axis=0), coords.max(axis=0)
    tg = []
    for k in range(nt):
        t = str(rng.choice(['inside', 'inside', 'outside', 'far', 'on_obs', 'lattice']))
        if t == 'inside':
            tg.append(rng.uniform(lo, hi))
        elif t == 'outside':
            tg.append(hi + rng.uniform(0.05, 0.4, size=dim) * (hi - lo + 1))
        elif t == 'far':
            tg.append(hi + 50 * (hi - lo + 1))
        elif t == 'on_obs':
            tg.append(coords[int(rng.integers(0, n))].copy())
        else:
            tg.append(np.round(rng.uniform(lo, hi) / 7.0) * 7.0 + (3.5 if kind == 'lattice' else 0.0))
    targets = np.array(tg, dtype=float)
    if rng.random() < 0.35 and len(targets) >= 3:
        # repeated target locations in one batch, first occurrences in no particular order
        rep = targets[rng.integers(0, len(targets), size=int(rng.integers(1, 4)))]
        targets = np.vstack([targets, rep])
        rng.shuffle(targets, axis=0)
    sparse = bool(allow_sparse and metric == 'euclidean' and model in BOUNDED and rng.random() < 0.4)
    solver = str(rng.choice(['inv', 'numpy', 'scipy']))
    # value-preserving dtypes of the caller's arrays: integer lattices as (unsigned) integer arrays, integer-valued
    # observations as integers, anything as float32 after rounding to float32 (the model keeps using the exact values)
    cdt = vdt = 'float64'
    if kind == 'lattice' and np.all(coords == np.round(coords)) and rng.random() < 0.5:
        cdt = str(rng.choice(['int64', 'int32'] + (['uint16', 'uint8' if coords.max() < 256 else 'uint16']
                                                   if coords.min() >= 0 else ['int16'])))
    elif rng.random() < 0.15:
        coords = coords.astype('float32').astype(float)
        targets = targets.astype('float32').astype(float)
        cdt = 'float32'
    if np.all(values == np.round(values)) and rng.random() < 0.6:
        vdt = str(rng.choice(['int64', 'int16']))
    elif rng.random() < 0.15:
        values = values.astype('float32').astype(float)
        vdt = 'float32'
    return dict(coords=coords.tolist(), values=values.tolist(), vario=vd, min_points=minp, max_points=maxp,
                targets=targets.tolist(), sparse=sparse, solver=solver, kind=kind, dim=dim,
                coord_dtype=cdt, value_dtype=vdt)


def build(case, **over):
    vd = dict(case['vario'])
    kw = dict(min_points=case['min_points'], max_points=case['max_points'], solver=case['solver'],
              sparse=case['sparse'])
    kw.update(over)
    coords = np.array(case['coords'], float).astype(case.get('coord_dtype', 'float64'))
    values = np.array(case['values'], float).astype(case.get('value_dtype', 'float64'))
    with quiet():
        return OrdinaryKriging(vd, coordinates=coords, values=values, **kw)


def run_transform(ok, targets):
    cols = [targets[:, k] for k in range(targets.shape[1])]
    with quiet():
        z = np.asarray(ok.transform(*cols), float)
    return z, np.asarray(ok.sigma, float), int(ok.no_points_error), int(ok.singular_error)


def dedup(coords, values):
    """documented handling of duplicated observation locations: the first occurrence is kept, order preserved"""
    seen, keep = set(), []
    for i, row in enumerate(map(tuple, coords.tolist())):
        if row not in seen:
            seen.add(row)
            keep.append(i)
    return coords[keep], values[keep]


def dist_rows(case):
    coords = np.array(case['coords'], float)
    targets = np.array(case['targets'], float)
    metric = case['vario']['dist_func']
    return cdist(targets, coords, metric=metric)


class ModelRun:
    """per-target model evaluation queued on the Lean driver (two phases: neighbours, solve)"""

    def __init__(self, ctx, case, ok):
        self.ctx, self.case, self.ok = ctx, case, ok
        self.coords, self.values = dedup(np.array(case['coords'], float), np.array(case['values'], float))
        self.metric = case['vario']['dist_func']
        self.rows = cdist(np.array(case['targets'], float), self.coords, metric=self.metric)
        self.rng_eff = case['vario']['effective_range']
        self.sel = {}
        self.res = {}
        self.cond = {}

    def ask_neighbours(self):
        N = self.case['max_points']
        for i, row in enumerate(self.rows):
            self.ctx.lean.ask(['c07', 'find', 'dense', frs(row), fr(self.rng_eff), str(N)],
                              lambda f, i=i: self.sel.__setitem__(i, parse_ints(f[0]) if f[0] else []))

    def ask_solves(self, neighbours=None):
        """neighbours: override (implementation's selection) per target"""
        g = self.ok.gamma_model
        for i, row in enumerate(self.rows):
            idx = list(neighbours[i]) if neighbours is not None else self.sel[i]
            if len(idx) < self.case['min_points'] or len(idx) == 0:
                self.res[i] = 'less'
                continue
            pts = self.coords[idx]
            D = squareform(pdist(pts, metric=self.metric)) if len(idx) > 1 else np.zeros((1, 1))
            with quiet():
                G = np.array([[0.0 if a == b else float(g(D[a, b])) for b in range(len(idx))] for a in range(len(idx))])
                g0 = np.array([float(g(row[j])) for j in idx])
            n = len(idx)
            A = np.ones((n + 1, n + 1))
            A[:n, :n] = G
            A[n, n] = 0.0
            try:
                self.cond[i] = float(np.linalg.cond(A))
            except Exception:
                self.cond[i] = float('inf')

            def cb(f, i=i):
                if f[0] == 'singular':
                    self.res[i] = 'singular'
                else:
                    self.res[i] = (parse_nums(f[0])[0], parse_nums(f[1])[0])
            self.ctx.lean.ask(['c07', 'solve', str(n), frs(G.flatten()), frs(g0), frs(self.values[idx])], cb)
