"""Case generation / construction helpers for Variogram-based properties."""
import math
import numpy as np

from .common import gen_coords, gen_values, quiet

import skgstat
from skgstat import Variogram, MetricSpace

ESTIMATORS = ['matheron', 'cressie', 'dowd', 'genton']
BINNINGS = ['even', 'uniform', 'kmeans', 'ward', 'sturges', 'scott', 'fd', 'sqrt', 'doane']
METRICS = ['euclidean', 'cityblock', 'chebyshev']


def metric_fn(name):
    if name == 'euclidean':
        return lambda a, b: math.sqrt(sum((x - y) * (x - y) for x, y in zip(a, b)))
    if name == 'cityblock':
        return lambda a, b: math.fsum(abs(x - y) for x, y in zip(a, b))
    if name == 'chebyshev':
        return lambda a, b: max(abs(x - y) for x, y in zip(a, b))
    raise ValueError(name)


def brute_pairs(n):
    return [(i, j) for i in range(n) for j in range(i + 1, n)]


def brute_dists(coords, metric):
    f = metric_fn(metric)
    c = [tuple(float(x) for x in row) for row in np.atleast_2d(coords)]
    return np.array([f(c[i], c[j]) for i, j in brute_pairs(len(c))])


def gen_case(rng, nmax=40, estimators=ESTIMATORS, binnings=BINNINGS, allow_sparse=True,
             allow_custom=True, dims=(1, 2, 3), metrics=METRICS, kinds=None, nmin=6):
    """one structured, mostly valid variogram configuration (a plain dict, JSON-able)"""
    dim = int(rng.choice(dims))
    kinds = kinds or ['uniform', 'clustered', 'lattice', 'lattice', 'dup', 'twoclusters']
    kind = str(rng.choice(kinds))
    n = int(rng.integers(nmin, nmax + 1))
    coords = gen_coords(rng, n, dim=dim, kind=kind)
    vkind = str(rng.choice(['field', 'int', 'noise']))
    values = gen_values(rng, coords, vkind)
    # observations may come in any numeric dtype (8-bit image data, integer counts)
    dtype = str(rng.choice(['float64'] * 5 + ['uint8', 'int64', 'float32']))
    if dtype == 'uint8':
        values = np.clip(np.round((values - values.min()) * 8), 0, 255)
    elif dtype == 'int64':
        values = np.round(values * 4)
    elif dtype == 'float32':
        values = values.astype('float32').astype(float)
    metric = str(rng.choice(metrics, p=None))
    want_sparse = allow_sparse and rng.random() < 0.3
    if want_sparse and 'euclidean' in metrics:
        metric = 'euclidean'
    d = brute_dists(coords, metric)
    dmax = float(d.max())
    est = str(rng.choice(estimators))
    binf = str(rng.choice(binnings))
    n_lags = int(rng.integers(1, 13))
    # maxlag forms
    form = str(rng.choice(['none', 'ratio', 'abs_below', 'abs_at', 'abs_above', 'median', 'mean', 'abs_one']))
    if form == 'abs_one':
        # maxlag exactly 1 is the boundary between "ratio of the largest distance" (< 1) and "absolute"
        # (>= 1): rescale so that 1 lies well inside the distance range, dense storage
        if allow_sparse and dmax > 0:
            coords = coords * (float(rng.uniform(3, 8)) / dmax)
            kind = 'scaled'          # no longer integer coordinates: not an exact lattice
            d = brute_dists(coords, metric)
            dmax = float(d.max())
            want_sparse = False
        else:
            form = 'none'
    if want_sparse:
        form = str(rng.choice(['abs_below', 'abs_below', 'abs_at', 'abs_above']))
    if form in ('median', 'mean', 'ratio', 'none') and dmax > 0 and rng.random() < 0.3:
        # normalised coordinates (unit square and smaller): the median / mean distance a string maxlag resolves to is
        # below 1 - it is a distance all the same, not a ratio
        coords = coords * (float(rng.uniform(0.2, 1.4)) / dmax)
        kind = 'scaled'
        d = brute_dists(coords, metric)
        dmax = float(d.max())
    uniq = np.unique(d[d > 0])
    if form == 'none':
        maxlag = None
    elif form == 'ratio':
        maxlag = float(rng.choice([0.3, 0.5, 0.75, 0.9]))
    elif form == 'abs_below':
        # a maxlag *equal* to an occurring distance only where that distance is exactly
        # representable (integer distances on a lattice); an irrational distance rounded to a
        # float is "within rounding distance of the boundary" and cKDTree decides it on squares
        exact = [x for x in uniq[len(uniq) // 3:] if float(x).is_integer()] if kind == 'lattice' else []
        if exact and rng.random() < 0.6:
            maxlag = float(rng.choice(exact))
        else:
            maxlag = float(dmax * rng.uniform(0.4, 0.95))
    elif form == 'abs_at':
        maxlag = dmax if float(dmax).is_integer() else float(dmax * (1 + 1e-9))
    elif form == 'abs_above':
        maxlag = float(dmax * 1.5 + 1)
    elif form == 'abs_one':
        maxlag = 1.0 if rng.random() < 0.5 else 1
    else:
        maxlag = form
    if isinstance(maxlag, float) and maxlag >= 1 and not allow_sparse:
        maxlag = None
        form = 'none'
    if isinstance(maxlag, float) and form.startswith('abs') and maxlag < 1:
        maxlag = None
        form = 'none'
    storage = 'raw'
    if (rng.random() < 0.3 and not want_sparse) or form == 'abs_one':
        storage = 'ms'       # pre-built dense MetricSpace
    kw = dict(estimator=est, bin_func=binf, n_lags=n_lags, maxlag=maxlag, dist_func=metric)
    if allow_custom and not want_sparse and rng.random() < 0.15:
        # user supplied edges, placed on occurring distances
        k = int(rng.integers(1, 7))
        pool = uniq if len(uniq) >= k else np.linspace(dmax / 10, dmax, 8)
        edges = sorted(float(x) for x in rng.choice(pool, size=min(k, len(pool)), replace=False))
        kw['bin_func'] = edges
        kw['maxlag'] = None
        form = 'custom'
    case = dict(coords=coords.tolist(), values=values.tolist(), kw=kw, storage=storage, dim=dim,
                kind=kind, maxlag_form=form, dtype=dtype)
    # integer-valued coordinates (lattices, raster indices) may arrive as (unsigned) integer arrays
    if np.all(coords == np.round(coords)) and np.all(coords >= 0) and np.all(coords < 30000) and rng.random() < 0.4:
        case['coord_dtype'] = str(rng.choice(['int64', 'int32', 'uint16', 'uint32']))
    return case


def recycle(buf):
    """the caller re-uses the buffer it built a MetricSpace from (the space describes the points it was given,
    its distances are computed lazily): overwrite it in place"""
    if buf.dtype.kind == 'f':
        buf[...] = buf[::-1] * 1.75 + 3.0
    else:
        buf[...] = buf[::-1] + 1


def build(case, **extra):
    """construct the real Variogram for a case (fit disabled unless requested)"""
    coords = np.array(case['coords'], dtype=float).astype(case.get('coord_dtype', 'float64'))
    if case.get('dim', coords.ndim) == 1 and coords.ndim == 2 and coords.shape[1] == 1:
        coords = coords[:, 0]
    values = np.array(case['values'], dtype=float).astype(case.get('dtype', 'float64'))
    kw = dict(case['kw'])
    kw.update(extra)
    kw.setdefault('fit_method', None)
    if case.get('storage') == 'ms':
        c2 = coords if coords.ndim == 2 else np.column_stack((coords, np.zeros(len(coords))))
        buf = c2.copy()
        ms = MetricSpace(buf, kw.get('dist_func', 'euclidean'))
        recycle(buf)
        with quiet():
            return Variogram(ms, values, **kw)
    with quiet():
        return Variogram(coords, values, **kw)


def is_sparse(V):
    from scipy import sparse
    return isinstance(V.distance_matrix, sparse.spmatrix)
