import SkgVerif.Model.Wire
open Skg

def dispatch (line : String) : String :=
  match line.splitOn "|" with
  | "c01" :: "pipeline" :: rest => (handlePipeline ("pipeline" :: rest)).getD "err|bad-request"
  | "c01" :: rest => (handleC01 rest).getD "err|bad-request"
  | "c02" :: rest => (handleC02 rest).getD "err|bad-request"
  | "c03" :: rest => (handleC03 rest).getD "err|bad-request"
  | "c04" :: rest => (handleC04 rest).getD "err|bad-request"
  | "c05" :: rest => (handleC05 rest).getD "err|bad-request"
  | "c06" :: rest => (handleC06 rest).getD "err|bad-request"
  | "c07" :: rest => (handleC07 rest).getD "err|bad-request"
  | "c12" :: rest => (handleC12 rest).getD "err|bad-request"
  | "c14" :: rest => (handleC14 rest).getD "err|bad-request"
  | "c17" :: rest => (handleC17 rest).getD "err|bad-request"
  | "c19" :: rest => (handleC19 rest).getD "err|bad-request"
  | _ => "err|unknown-command"

partial def loop (h : IO.FS.Stream) (out : IO.FS.Stream) : IO Unit := do
  let line ← h.getLine
  if line.isEmpty then return ()
  let l := line.trimAscii.toString
  out.putStrLn (dispatch l)
  loop h out

def main : IO Unit := do
  let stdin ← IO.getStdin
  let stdout ← IO.getStdout
  loop stdin stdout
