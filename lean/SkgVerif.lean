-- Root of the `SkgVerif` library: importing every property module makes `lake build` check all
-- theorems (setup_cmd).
import SkgVerif.Props.C01
import SkgVerif.Props.C02
import SkgVerif.Props.C03
import SkgVerif.Props.C04
import SkgVerif.Props.C05
import SkgVerif.Props.C06
import SkgVerif.Props.C07
import SkgVerif.Props.C08
import SkgVerif.Props.C09
import SkgVerif.Props.C10
import SkgVerif.Props.C11
import SkgVerif.Props.C12
import SkgVerif.Props.C13
import SkgVerif.Props.C14
import SkgVerif.Props.C15
import SkgVerif.Props.C16
import SkgVerif.Props.C17
import SkgVerif.Props.C18
import SkgVerif.Props.C19
import SkgVerif.Props.C20
import SkgVerif.Model.Wire
