import SkgVerif.Model.Basic
