import SkgVerif.Model.CacheMachine
import Mathlib.Tactic

namespace Skg

open Setting Cache

/-- no stale value: every filled cache is consistent with the current value of every setting it
depends on -/
def CInv (st : VState) : Prop :=
  ∀ c t, st.cache c = some t → ∀ s, deps c s = true → t s = true

theorem cinv_init : CInv VState.init := by
  intro c t h; simp [VState.init] at h

theorem cinv_fill (st : VState) (c : Cache) (t : Taint) (h : CInv st)
    (ht : ∀ s, deps c s = true → t s = true) : CInv (fill st c t) := by
  intro c' t' hc s hs
  unfold fill at hc
  simp only at hc
  split_ifs at hc with e
  · subst e; cases hc; exact ht s hs
  · exact h c' t' hc s hs

theorem getT_ok (st : VState) (h : CInv st) (c : Cache) (s : Setting) (hs : deps c s = true) :
    getT st c s = true := by
  unfold getT
  cases hc : st.cache c with
  | none => rfl
  | some t => exact h c t hc s hs

theorem inherit_ok (st : VState) (h : CInv st) (srcs : List Cache) (s : Setting) :
    inherit st srcs s = true := by
  unfold inherit
  rw [List.all_eq_true]
  intro c _
  by_cases hd : deps c s = true
  · simp [getT_ok st h c s hd]
  · simp [hd]

/-- caches are only ever filled by reads -/
def Grows (st st' : VState) : Prop := ∀ c, (st.cache c).isSome → (st'.cache c).isSome

theorem grows_refl (st : VState) : Grows st st := fun _ h => h
theorem grows_trans {a b c : VState} (h1 : Grows a b) (h2 : Grows b c) : Grows a c :=
  fun x hx => h2 x (h1 x hx)

theorem grows_fill (st : VState) (c : Cache) (t : Taint) : Grows st (fill st c t) := by
  intro c' h
  unfold fill; simp only
  split_ifs
  · rfl
  · exact h

theorem fill_some (st : VState) (c : Cache) (t : Taint) : ((fill st c t).cache c).isSome := by
  simp [fill]

/-- a read step: keeps the invariant, only fills -/
structure Good (f : VState → VState) : Prop where
  inv : ∀ st, CInv st → CInv (f st)
  grows : ∀ st, Grows st (f st)

theorem good_comp {f g : VState → VState} (hf : Good f) (hg : Good g) : Good (fun st => g (f st)) :=
  ⟨fun st h => hg.inv _ (hf.inv st h), fun st => grows_trans (hf.grows st) (hg.grows _)⟩

theorem good_fill_inherit (c : Cache) (srcs : List Cache) :
    Good (fun st => fill st c (inherit st srcs)) :=
  ⟨fun st h => cinv_fill st c _ h (fun s _ => inherit_ok st h srcs s), fun st => grows_fill st c _⟩

theorem good_fill_fresh (c : Cache) : Good (fun st => fill st c allFresh) :=
  ⟨fun st h => cinv_fill st c _ h (fun _ _ => rfl), fun st => grows_fill st c _⟩

theorem good_id : Good (fun st => st) := ⟨fun _ h => h, fun st => grows_refl st⟩

theorem good_ensureMask : Good ensureMask := by
  constructor
  · intro st h; unfold ensureMask; split
    · exact h
    · exact (good_fill_fresh mask).inv st h
  · intro st; unfold ensureMask; split
    · exact grows_refl st
    · exact grows_fill st _ _

theorem ensureMask_some (st : VState) : ((ensureMask st).cache mask).isSome := by
  unfold ensureMask; split
  · rename_i t h; simp [h]
  · exact fill_some _ _ _

theorem good_ensureBins : Good ensureBins := by
  constructor
  · intro st h; unfold ensureBins; split
    · exact h
    · exact (good_fill_inherit bins [mask]).inv _ (good_ensureMask.inv st h)
  · intro st; unfold ensureBins; split
    · exact grows_refl st
    · exact grows_trans (good_ensureMask.grows st) (grows_fill _ _ _)

theorem ensureBins_some (st : VState) : ((ensureBins st).cache bins).isSome := by
  unfold ensureBins; split
  · rename_i t h; simp [h]
  · exact fill_some _ _ _

theorem good_calcGroups (force : Bool) : Good (calcGroups force) := by
  constructor
  · intro st h; unfold calcGroups; split
    · exact good_ensureMask.inv st h
    · exact (good_fill_inherit groups [bins, mask]).inv _
        (good_ensureMask.inv _ (good_ensureBins.inv st h))
  · intro st; unfold calcGroups; split
    · exact good_ensureMask.grows st
    · exact grows_trans (grows_trans (good_ensureBins.grows st) (good_ensureMask.grows _))
        (grows_fill _ _ _)

theorem calcGroups_some (force : Bool) (st : VState) : ((calcGroups force st).cache groups).isSome := by
  unfold calcGroups; split
  · rename_i t _ h; exact good_ensureMask.grows st groups (by simp [h])
  · exact fill_some _ _ _

theorem good_calcDiff (force : Bool) : Good (calcDiff force) := by
  constructor
  · intro st h; unfold calcDiff; split
    · exact h
    · exact (good_fill_fresh diff).inv st h
  · intro st; unfold calcDiff; split
    · exact grows_refl st
    · exact grows_fill st _ _

theorem calcDiff_some (force : Bool) (st : VState) : ((calcDiff force st).cache diff).isSome := by
  unfold calcDiff; split
  · rename_i t _ h; simp [h]
  · exact fill_some _ _ _

theorem good_preprocessing (force : Bool) : Good (preprocessing force) :=
  good_comp (f := calcDiff force) (g := calcGroups force) (good_calcDiff force) (good_calcGroups force)

theorem good_readDiff : Good readDiff := by
  constructor
  · intro st h; unfold readDiff; split
    · exact h
    · exact (good_preprocessing false).inv st h
  · intro st; unfold readDiff; split
    · exact grows_refl st
    · exact (good_preprocessing false).grows st

theorem readDiff_some (st : VState) : ((readDiff st).cache diff).isSome := by
  unfold readDiff; split
  · rename_i t h; simp [h]
  · exact (good_calcGroups false).grows _ diff (calcDiff_some false st)

theorem good_lagClassesRead : Good lagClassesRead :=
  good_comp (f := fun st => calcGroups false (readDiff st)) (g := ensureBins)
    (good_comp (f := readDiff) (g := calcGroups false) good_readDiff (good_calcGroups false))
    good_ensureBins

theorem lagClassesRead_some (st : VState) :
    ((lagClassesRead st).cache groups).isSome ∧ ((lagClassesRead st).cache bins).isSome ∧
    ((lagClassesRead st).cache diff).isSome := by
  unfold lagClassesRead
  refine ⟨good_ensureBins.grows _ groups (calcGroups_some false _), ensureBins_some _, ?_⟩
  exact good_ensureBins.grows _ diff ((good_calcGroups false).grows _ diff (readDiff_some st))

theorem good_readBinCount : Good readBinCount := by
  constructor
  · intro st h; unfold readBinCount; split
    · exact h
    · exact (good_fill_inherit binCount [groups]).inv _ (good_lagClassesRead.inv st h)
  · intro st; unfold readBinCount; split
    · exact grows_refl st
    · exact grows_trans (good_lagClassesRead.grows st) (grows_fill _ _ _)

theorem readBinCount_some (st : VState) : ((readBinCount st).cache binCount).isSome := by
  unfold readBinCount; split
  · rename_i t h; simp [h]
  · exact fill_some _ _ _

theorem good_fitForce : Good fitForce := by
  have h1 : Good (fun st => lagClassesRead (ensureBins st)) :=
    good_comp (f := ensureBins) (g := lagClassesRead) good_ensureBins good_lagClassesRead
  have h2 : Good (fun st => lagClassesRead (ensureBins (preprocessing true st))) :=
    good_comp (f := preprocessing true) (g := fun st => lagClassesRead (ensureBins st))
      (good_preprocessing true) h1
  exact good_comp (f := fun st => lagClassesRead (ensureBins (preprocessing true st)))
    (g := fun st => fill st cof (inherit st [bins, groups, diff])) h2
    (good_fill_inherit cof [bins, groups, diff])

theorem fitForce_some (st : VState) : ((fitForce st).cache cof).isSome := by
  unfold fitForce; exact fill_some _ _ _

theorem good_readParameters : Good readParameters := by
  have hstep : Good (fun st => match st.cache cof with | some _ => st | none => fitForce st) := by
    constructor
    · intro st h; split
      · exact h
      · exact good_fitForce.inv st h
    · intro st; split
      · exact grows_refl st
      · exact good_fitForce.grows st
  have h1 : Good (fun st => lagClassesRead (ensureBins st)) :=
    good_comp (f := ensureBins) (g := lagClassesRead) good_ensureBins good_lagClassesRead
  exact good_comp (f := fun st => match st.cache cof with | some _ => st | none => fitForce st)
    (g := fun st => lagClassesRead (ensureBins st)) hstep h1

theorem readParameters_some (st : VState) : ((readParameters st).cache cof).isSome := by
  unfold readParameters
  have h1 : Good (fun st => lagClassesRead (ensureBins st)) :=
    good_comp (f := ensureBins) (g := lagClassesRead) good_ensureBins good_lagClassesRead
  apply h1.grows
  split
  · rename_i t h; simp [h]
  · exact fitForce_some st

theorem good_readTransform : Good readTransform := by
  constructor
  · intro st h; unfold readTransform; simp only; split
    · exact (good_preprocessing false).inv st h
    · exact good_fitForce.inv _ ((good_preprocessing false).inv st h)
  · intro st; unfold readTransform; simp only; split
    · exact (good_preprocessing false).grows st
    · exact grows_trans ((good_preprocessing false).grows st) (good_fitForce.grows _)

theorem readTransform_some (st : VState) : ((readTransform st).cache cof).isSome := by
  unfold readTransform; simp only; split
  · rename_i t h; simp [h]
  · exact fitForce_some _

theorem good_doRead (r : Read) : Good (fun st => doRead st r) := by
  cases r <;> simp only [doRead]
  · exact good_ensureBins
  · exact good_readBinCount
  · exact good_lagClassesRead
  · exact good_readParameters
  · exact good_readTransform
  · exact good_readDiff

theorem doRead_some (st : VState) (r : Read) : ((doRead st r).cache r.target).isSome := by
  cases r <;> simp only [doRead, Read.target]
  · exact ensureBins_some st
  · exact readBinCount_some st
  · exact (lagClassesRead_some st).1
  · exact readParameters_some st
  · exact readTransform_some st
  · exact readDiff_some st

/-- a setter keeps the invariant if it clears or recomputes every cache that depends on the
setting -/
theorem cinv_doSet (act : Setting → Cache → Action) (st : VState) (h : CInv st) (s : Setting)
    (hcov : ∀ c, deps c s = true → act s c ≠ .keep) : CInv (doSet act st s) := by
  intro c t hc s' hs'
  simp only [doSet] at hc
  cases ha : act s c with
  | clear => simp [ha] at hc
  | refill => simp only [ha, Option.some.injEq] at hc; subst hc; rfl
  | keep =>
    simp only [ha] at hc
    cases hst : st.cache c with
    | none => simp [hst] at hc
    | some t0 =>
      simp only [hst, Option.map_some, Option.some.injEq] at hc
      subst hc
      by_cases e : s' = s
      · subst e; exact absurd ha (hcov c hs')
      · simp only [e, if_false]; exact h c t0 hst s' hs'

theorem mem_Setting_all (s : Setting) : s ∈ Setting.all := by cases s <;> simp [Setting.all]
theorem mem_Cache_all (c : Cache) : c ∈ Cache.all := by cases c <;> simp [Cache.all]

theorem covers_of_coversB (act : Setting → Cache → Action) (gaps : List (Setting × Cache))
    (h : coversB act gaps = true) (s : Setting) (hs : ∀ c, (s, c) ∉ gaps) (c : Cache)
    (hd : deps c s = true) : act s c ≠ .keep := by
  have := (List.all_eq_true.1 ((List.all_eq_true.1 h) s (mem_Setting_all s))) c (mem_Cache_all c)
  have h2 : act s c ≠ .keep ∨ (s, c) ∈ gaps := by simpa [hd] using this
  exact h2.resolve_right (hs c)

end Skg
