import SkgVerif.Lemmas.Grouping

namespace Skg

/-- membership predicate of lag class `k` as the property states it -/
def inClass (edges : List Rat) (k : Nat) (d : Rat) : Bool :=
  decide ((0 :: edges).getD k 0 ≤ d ∧ d < edges.getD k 0)

theorem groupLoop_eq_iff_inClass (edges : List Rat) (h : (0 :: edges).Pairwise (· ≤ ·)) (d : Rat)
    (hd : 0 ≤ d) (k : Nat) (hk : k < edges.length) :
    (groupLoop edges d == (k : Int)) = inClass edges k d := by
  have hk1 : k < (0 :: edges).length := by simp; omega
  have e1 : (0 :: edges).getD k 0 = (0 :: edges)[k] := by
    rw [List.getD_eq_getElem?_getD, List.getElem?_eq_getElem hk1]; rfl
  have e2 : edges.getD k 0 = edges[k] := by
    rw [List.getD_eq_getElem?_getD, List.getElem?_eq_getElem hk]; rfl
  unfold inClass
  rw [e1, e2]
  have key : groupLoop edges d = (k : Int) ↔ ((0 :: edges)[k] ≤ d ∧ d < edges[k]) := by
    constructor
    · intro hg
      rcases groupLoop_cases edges h d hd with ⟨k', hk', ha, hb, hg'⟩ | ⟨_, hg'⟩
      · have : k = k' := by rw [hg] at hg'; exact_mod_cast hg'
        subst this; exact ⟨ha, hb⟩
      · rw [hg] at hg'; omega
    · intro hin
      rcases groupLoop_cases edges h d hd with ⟨k', hk', ha, hb, hg'⟩ | ⟨hall, _⟩
      · have := interval_unique edges h d k k' hk hk' hin ⟨ha, hb⟩
        subst this; exact hg'
      · exact absurd (hall _ (List.getElem_mem hk)) (not_le.2 hin.2)
  by_cases hin : (0 :: edges)[k] ≤ d ∧ d < edges[k]
  · simp [hin, key.2 hin]
  · have : ¬ groupLoop edges d = (k : Int) := fun hg => hin (key.1 hg)
    simp [hin, this]

theorem lagClass_spec {α} (edges : List Rat) (h : (0 :: edges).Pairwise (· ≤ ·))
    (k : Nat) (hk : k < edges.length) :
    ∀ (ds : List Rat) (xs : List α), (∀ d ∈ ds, 0 ≤ d) →
    lagClass (groups edges ds) xs k =
      ((ds.zip xs).filter (fun p => inClass edges k p.1)).map (·.2) := by
  intro ds
  induction ds with
  | nil => intro xs _; simp [lagClass, groups]
  | cons d ds ih =>
    intro xs hpos
    cases xs with
    | nil => simp [lagClass, groups]
    | cons x xs =>
      have hd : 0 ≤ d := hpos d (by simp)
      have ih' := ih xs (fun d' hd' => hpos d' (by simp [hd']))
      unfold lagClass groups at ih' ⊢
      simp only [List.map_cons, List.zip_cons_cons, List.filter_cons]
      rw [groupLoop_eq_iff_inClass edges h d hd k hk]
      cases hc : inClass edges k d <;> simp [ih']

theorem count_spec (edges : List Rat) (h : (0 :: edges).Pairwise (· ≤ ·))
    (k : Nat) (hk : k < edges.length) :
    ∀ (ds : List Rat), (∀ d ∈ ds, 0 ≤ d) →
    ((groups edges ds).filter (fun g => g == (k : Int))).length =
      (ds.filter (fun d => inClass edges k d)).length := by
  intro ds
  induction ds with
  | nil => intro _; simp [groups]
  | cons d ds ih =>
    intro hpos
    have hd : 0 ≤ d := hpos d (by simp)
    have ih' := ih (fun d' hd' => hpos d' (by simp [hd']))
    unfold groups at ih' ⊢
    simp only [List.map_cons, List.filter_cons]
    rw [groupLoop_eq_iff_inClass edges h d hd k hk]
    cases hc : inClass edges k d <;> simp [ih']

end Skg
