import SkgVerif.Lemmas.Pairs

namespace Skg

/-- triangular numbers -/
def tri : ℕ → ℕ
  | 0 => 0
  | i + 1 => tri i + (i + 1)

theorem tri_eq (i : ℕ) : tri i = i * (i + 1) / 2 := by
  induction i with
  | zero => rfl
  | succ i ih =>
    simp only [tri, ih]
    have h : (i + 1) * (i + 1 + 1) = i * (i + 1) + 2 * (i + 1) := by ring
    rw [h, Nat.add_mul_div_left _ _ (by norm_num : 0 < 2)]

/-- number of pairs whose first index is below `i` -/
def prefixLen (n i : ℕ) : ℕ := ((List.range i).flatMap (pairsFrom n)).length

theorem prefixLen_succ (n i : ℕ) : prefixLen n (i + 1) = prefixLen n i + (n - (i + 1)) := by
  unfold prefixLen
  rw [List.range_succ, List.flatMap_append, List.length_append]
  simp [length_pairsFrom]

theorem prefixLen_add_tri (n : ℕ) : ∀ i, i ≤ n → prefixLen n i + tri i = n * i := by
  intro i
  induction i with
  | zero => intro _; simp [prefixLen, tri]
  | succ i ih =>
    intro h
    have := ih (by omega)
    rw [prefixLen_succ]
    simp only [tri]
    have hmul : n * (i + 1) = n * i + n := by ring
    omega

/-- the `k`-th pair starting at `i` sits at position `prefixLen n i + k` of the condensed order -/
theorem pairs_getElem?_block (n : ℕ) : ∀ m, m ≤ n → ∀ i k, i < m → k < n - (i + 1) →
    ((List.range m).flatMap (pairsFrom n))[prefixLen n i + k]? = some (i, i + 1 + k) := by
  intro m
  induction m with
  | zero => intro _ i k hi _; omega
  | succ m ih =>
    intro hm i k hi hk
    rw [List.range_succ, List.flatMap_append]
    simp only [List.flatMap_cons, List.flatMap_nil, List.append_nil]
    by_cases him : i < m
    · have hlt : prefixLen n i + k < ((List.range m).flatMap (pairsFrom n)).length := by
        have h1 : prefixLen n (i + 1) ≤ prefixLen n m := by
          have hmono : ∀ a b, a ≤ b → prefixLen n a ≤ prefixLen n b := by
            intro a b hab
            induction b with
            | zero => simp at hab; subst hab; exact le_refl _
            | succ b ihb =>
              rcases Nat.eq_or_lt_of_le hab with e | l
              · subst e; exact le_refl _
              · exact le_trans (ihb (by omega)) (by rw [prefixLen_succ]; omega)
          exact hmono _ _ (by omega)
        have h2 := prefixLen_succ n i
        show prefixLen n i + k < prefixLen n m
        omega
      rw [List.getElem?_append_left hlt]
      exact ih (by omega) i k him hk
    · have him' : i = m := by omega
      subst him'
      have hle : ((List.range i).flatMap (pairsFrom n)).length ≤ prefixLen n i + k := by
        show prefixLen n i ≤ prefixLen n i + k; omega
      rw [List.getElem?_append_right hle]
      have : prefixLen n i + k - ((List.range i).flatMap (pairsFrom n)).length = k := by
        show prefixLen n i + k - prefixLen n i = k; omega
      rw [this]
      unfold pairsFrom
      rw [List.getElem?_map, List.getElem?_range hk]
      rfl

/-- closed form of the condensed index (`scipy.spatial.distance.squareform` convention):
the pair `(i, j)`, `i < j < n`, is entry `n·i − i(i+1)/2 + (j − i − 1)` of the condensed vector -/
theorem pairs_condIdx (n i j : ℕ) (hij : i < j) (hj : j < n) :
    (pairs n)[condIdx n i j]? = some (i, j) := by
  have h1 := prefixLen_add_tri n i (by omega)
  have hc : condIdx n i j = prefixLen n i + (j - i - 1) := by
    unfold condIdx
    rw [← tri_eq]
    have : tri i ≤ n * i := by omega
    omega
  rw [hc]
  have := pairs_getElem?_block n n (le_refl n) i (j - i - 1) (by omega) (by omega)
  unfold pairs
  rw [this]
  congr 2; omega

end Skg
