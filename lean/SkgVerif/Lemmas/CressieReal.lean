import SkgVerif.Gen.EstimatorsReal
import Mathlib.Analysis.SpecialFunctions.Pow.Real
import Mathlib.Analysis.SpecialFunctions.Sqrt
import Mathlib.Tactic

open Real

namespace Skg

theorem foldl_add_eq_sum (l : List ℝ) : l.foldl (· + ·) 0 = l.sum := by
  rw [List.sum_eq_foldl]

/-- Cressie-Hawkins as generated from `estimators.py`, in closed form -/
theorem cressieGenR_eq (x : List ℝ) :
    Gen.cressieGenR x =
      ((1 / (x.length : ℝ)) * (x.map Real.sqrt).sum) ^ 4 /
        (2 * (457 / 1000 + (247 / 500) / (x.length : ℝ) + (9 / 200) / (x.length : ℝ) ^ 2)) := by
  unfold Gen.cressieGenR
  simp only [foldl_add_eq_sum]

theorem cressie_perm {l₁ l₂ : List ℝ} (h : l₁.Perm l₂) : Gen.cressieGenR l₁ = Gen.cressieGenR l₂ := by
  rw [cressieGenR_eq, cressieGenR_eq, h.length_eq, (h.map Real.sqrt).sum_eq]

theorem cressie_scale (c : ℝ) (hc : 0 ≤ c) (xs : List ℝ) :
    Gen.cressieGenR (xs.map (c * ·)) = c ^ 2 * Gen.cressieGenR xs := by
  rw [cressieGenR_eq, cressieGenR_eq]
  have hs : ((xs.map (c * ·)).map Real.sqrt).sum = Real.sqrt c * (xs.map Real.sqrt).sum := by
    rw [List.map_map, ← List.sum_map_mul_left]
    congr 1
    apply List.map_congr_left
    intro t _
    simp only [Function.comp]
    exact Real.sqrt_mul hc t
  rw [hs, List.length_map]
  have h4 : Real.sqrt c ^ 4 = c ^ 2 := by
    have : Real.sqrt c ^ 2 = c := Real.sq_sqrt hc
    calc Real.sqrt c ^ 4 = (Real.sqrt c ^ 2) ^ 2 := by ring
      _ = c ^ 2 := by rw [this]
  have : (1 / (xs.length : ℝ) * (Real.sqrt c * (xs.map Real.sqrt).sum)) ^ 4 =
      c ^ 2 * (1 / (xs.length : ℝ) * (xs.map Real.sqrt).sum) ^ 4 := by
    rw [← h4]; ring
  rw [this, mul_div_assoc]

end Skg
