import SkgVerif.Gen.DirectionReal
import Mathlib.Analysis.SpecialFunctions.Trigonometric.Basic
import Mathlib.Analysis.SpecialFunctions.Trigonometric.Inverse
import Mathlib.Algebra.Order.Round
import Mathlib.Tactic

open Real

namespace Skg

/-- the two-step folding of `_compass` / `_triangle` applied to a non-negative angle -/
noncomputable def fold (x : ℝ) : ℝ :=
  let y := if x > π then x - π else x
  if y > π / 2 then π - y else y

/-- distance of `x` to the nearest multiple of π: the unsigned angle between two undirected
lines whose directions differ by `x` -/
noncomputable def distPi (x : ℝ) : ℝ := |x - π * round (x / π)|

theorem distPi_le (x : ℝ) (k : ℤ) : distPi x ≤ |x - π * k| := by
  unfold distPi
  have hpi := pi_pos
  have h1 : |x / π - round (x / π)| ≤ |x / π - k| := round_le (x / π) k
  have e1 : x - π * round (x / π) = π * (x / π - round (x / π)) := by field_simp
  have e2 : x - π * k = π * (x / π - k) := by field_simp
  rw [e1, e2, abs_mul, abs_mul, abs_of_pos hpi]
  exact mul_le_mul_of_nonneg_left h1 hpi.le

theorem distPi_le_half (x : ℝ) : distPi x ≤ π / 2 := by
  unfold distPi
  have hpi := pi_pos
  have h1 : |x / π - round (x / π)| ≤ 1 / 2 := abs_sub_round (x / π)
  have e1 : x - π * round (x / π) = π * (x / π - round (x / π)) := by field_simp
  rw [e1, abs_mul, abs_of_pos hpi]
  nlinarith

theorem distPi_nonneg (x : ℝ) : 0 ≤ distPi x := abs_nonneg _

/-- if `|x − kπ| ≤ π/2` then that is the distance -/
theorem distPi_eq_of_le (x : ℝ) (k : ℤ) (h : |x - π * k| ≤ π / 2) : distPi x = |x - π * k| := by
  apply le_antisymm (distPi_le x k)
  unfold distPi
  set j := round (x / π)
  by_cases hjk : j = k
  · rw [hjk]
  · have hpi := pi_pos
    have hd : (1:ℝ) ≤ |((j - k : ℤ) : ℝ)| := by
      have : (1:ℤ) ≤ |j - k| := Int.one_le_abs (sub_ne_zero.2 hjk)
      exact_mod_cast this
    have hj : |x - π * j| ≤ π / 2 := distPi_le_half x
    have tri : |π * ((j - k : ℤ) : ℝ)| ≤ |x - π * k| + |x - π * j| := by
      have : π * ((j - k : ℤ) : ℝ) = (x - π * k) - (x - π * j) := by push_cast; ring
      rw [this]; exact abs_sub _ _
    rw [abs_mul, abs_of_pos hpi] at tri
    have : π ≤ |x - π * k| + |x - π * j| := by nlinarith
    linarith

theorem fold_abs_eq (x : ℝ) (hx : |x| ≤ 2 * π) : fold |x| = distPi x := by
  have hpi := pi_pos
  unfold fold
  simp only
  rcases abs_cases x with ⟨hax, hx0⟩ | ⟨hax, hx0⟩ <;> rw [hax] at hx ⊢
  · split_ifs with h1 h2 h2
    · rw [distPi_eq_of_le x 2 (by rw [abs_le]; constructor <;> push_cast <;> linarith)]
      rw [abs_of_nonpos (by push_cast; linarith)]; push_cast; ring
    · rw [distPi_eq_of_le x 1 (by rw [abs_le]; constructor <;> push_cast <;> linarith)]
      rw [abs_of_nonneg (by push_cast; linarith)]; push_cast; ring
    · rw [distPi_eq_of_le x 1 (by rw [abs_le]; constructor <;> push_cast <;> linarith)]
      rw [abs_of_nonpos (by push_cast; linarith)]; push_cast; ring
    · rw [distPi_eq_of_le x 0 (by rw [abs_le]; constructor <;> push_cast <;> linarith)]
      rw [abs_of_nonneg (by push_cast; linarith)]; push_cast; ring
  · split_ifs with h1 h2 h2
    · rw [distPi_eq_of_le x (-2) (by rw [abs_le]; constructor <;> push_cast <;> linarith)]
      rw [abs_of_nonneg (by push_cast; linarith)]; push_cast; ring
    · rw [distPi_eq_of_le x (-1) (by rw [abs_le]; constructor <;> push_cast <;> linarith)]
      rw [abs_of_nonpos (by push_cast; linarith)]; push_cast; ring
    · rw [distPi_eq_of_le x (-1) (by rw [abs_le]; constructor <;> push_cast <;> linarith)]
      rw [abs_of_nonneg (by push_cast; linarith)]; push_cast; ring
    · rw [distPi_eq_of_le x 0 (by rw [abs_le]; constructor <;> push_cast <;> linarith)]
      rw [abs_of_nonpos (by push_cast; linarith)]; push_cast; ring

theorem distPi_add_pi (x : ℝ) : distPi (x + π) = distPi x := by
  unfold distPi
  have hpi := pi_pos.ne'
  have : (x + π) / π = x / π + 1 := by field_simp
  rw [this, round_add_one]; push_cast; ring_nf

theorem distPi_sub_pi (x : ℝ) : distPi (x - π) = distPi x := by
  have := distPi_add_pi (x - π)
  rw [sub_add_cancel] at this
  exact this.symm

theorem distPi_add_int_mul_pi (x : ℝ) (k : ℤ) : distPi (x + k * π) = distPi x := by
  induction k using Int.induction_on with
  | zero => simp
  | succ n ih =>
    have : x + ((n : ℤ) + 1 : ℤ) * π = (x + (n : ℤ) * π) + π := by push_cast; ring
    rw [this, distPi_add_pi, ih]
  | pred n ih =>
    have : x + ((-(n : ℤ) - 1 : ℤ)) * π = (x + (-(n : ℤ)) * π) - π := by push_cast; ring
    rw [this, distPi_sub_pi]; simpa using ih

theorem distPi_neg (x : ℝ) : distPi (-x) = distPi x := by
  have h1 : distPi (-x) ≤ distPi x := by
    have := distPi_le (-x) (-(round (x / π)))
    refine le_trans this ?_
    unfold distPi
    rw [← abs_neg]; apply le_of_eq; congr 1; push_cast; ring
  have h2 : distPi x ≤ distPi (-x) := by
    have := distPi_le x (-(round (-x / π)))
    refine le_trans this ?_
    unfold distPi
    rw [← abs_neg]; apply le_of_eq; congr 1; push_cast; ring
  exact le_antisymm h1 h2

/-- the generated compass mask: fold of `|θ + az|` against half the tolerance (radians) -/
theorem compassMask_eq (az tol bw θ d : ℝ) :
    Gen.compassMask az tol bw θ d ↔ fold |θ + az * π / 180| ≤ tol / 2 * π / 180 := by
  unfold Gen.compassMask fold
  simp only [gt_iff_lt]

theorem triangleMask_eq (az tol bw θ d : ℝ) :
    Gen.triangleMask az tol bw θ d ↔
      (fold |θ + az * π / 180| ≤ tol / 2 * π / 180 ∧ abs (d * Real.sin (abs (θ + az * π / 180))) ≤ bw / 2) := by
  unfold Gen.triangleMask fold
  simp only [gt_iff_lt, ge_iff_le]

theorem abs_sin_abs (x : ℝ) : abs (Real.sin (abs x)) = abs (Real.sin x) := by
  rcases abs_cases x with ⟨h, _⟩ | ⟨h, _⟩ <;> rw [h]
  rw [Real.sin_neg, abs_neg]

end Skg
