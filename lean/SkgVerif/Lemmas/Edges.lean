import SkgVerif.Lemmas.Quantile
import SkgVerif.Lemmas.Grouping

namespace Skg

theorem pairwise_map_range {R : Rat → Rat → Prop} (f : ℕ → Rat) (n : ℕ)
    (h : ∀ i j, i < j → j < n → R (f i) (f j)) : ((List.range n).map f).Pairwise R := by
  rw [List.pairwise_map]
  have := List.pairwise_lt_range (n := n)
  refine List.Pairwise.imp_of_mem ?_ this
  intro a b _ hb hab
  exact h a b hab (List.mem_range.1 hb)

theorem evenEdges_length (n : ℕ) (m : Rat) : (evenEdges n m).length = n := by simp [evenEdges]

theorem evenEdges_get (n : ℕ) (m : Rat) (i : ℕ) (hi : i < (evenEdges n m).length) :
    (evenEdges n m)[i] = m * ((i : Rat) + 1) / (n : Rat) := by
  simp [evenEdges]

theorem uniformEdges_length (n : ℕ) (m : Rat) (ds : List Rat) : (uniformEdges n m ds).length = n := by
  simp [uniformEdges]

theorem midpointEdges_length : ∀ (cs : List Rat) (lo : Rat), (midpointEdges lo cs).length = cs.length := by
  intro cs
  induction cs with
  | nil => intro lo; rfl
  | cons c cs ih => intro lo; simp [midpointEdges, ih]

/-- mid-points of a non-decreasing chain are non-decreasing and bounded by the chain -/
theorem midpointEdges_spec : ∀ (cs : List Rat) (lo m : Rat), Mono lo cs → (∀ c ∈ cs, c ≤ m) →
    lo ≤ m → Mono lo (midpointEdges lo cs) ∧ (∀ e ∈ midpointEdges lo cs, e ≤ m) ∧
    (∀ e ∈ midpointEdges lo cs, lo ≤ e) := by
  intro cs
  induction cs with
  | nil => intro lo m _ _ _; exact ⟨trivial, by simp [midpointEdges], by simp [midpointEdges]⟩
  | cons c cs ih =>
    intro lo m hmono hle hlo
    obtain ⟨h1, h2⟩ := hmono
    have hc : c ≤ m := hle c (by simp)
    obtain ⟨ihm, ihle, ihge⟩ := ih c m h2 (fun x hx => hle x (by simp [hx])) hc
    simp only [midpointEdges]
    refine ⟨⟨by linarith, ?_⟩, ?_, ?_⟩
    · -- chain continues from (lo+c)/2 ≤ c ≤ first of the rest
      cases cs with
      | nil => trivial
      | cons c' cs' =>
        simp only [midpointEdges] at ihm ⊢
        exact ⟨by linarith [ihm.1, h2.1], ihm.2⟩
    · intro e he
      rcases List.mem_cons.1 he with rfl | he
      · linarith
      · exact ihle e he
    · intro e he
      rcases List.mem_cons.1 he with rfl | he
      · linarith
      · linarith [ihge e he]

theorem pairwise_of_mono : ∀ (es : List Rat) (lo : Rat), Mono lo es → (lo :: es).Pairwise (· ≤ ·) := by
  intro es
  induction es with
  | nil => intro lo _; simp
  | cons e es ih =>
    intro lo h
    have := ih e h.2
    rw [List.pairwise_cons] at this ⊢
    refine ⟨?_, ih e h.2⟩
    intro x hx
    rcases List.mem_cons.1 hx with rfl | hx
    · exact h.1
    · exact le_trans h.1 (this.1 x hx)

theorem maxR_ge_aux : ∀ (l : List Rat) (a : Rat),
    a ≤ l.foldl (fun a b => if a ≤ b then b else a) a ∧
    ∀ x ∈ l, x ≤ l.foldl (fun a b => if a ≤ b then b else a) a := by
  intro l
  induction l with
  | nil => intro a; simp
  | cons b l ih =>
    intro a
    simp only [List.foldl_cons]
    obtain ⟨h1, h2⟩ := ih (if a ≤ b then b else a)
    constructor
    · split_ifs at h1 ⊢ with hab
      · exact le_trans hab h1
      · exact h1
    · intro x hx
      rcases List.mem_cons.1 hx with rfl | hx
      · split_ifs at h1 ⊢ with hab
        · exact h1
        · exact le_trans (le_of_lt (not_le.1 hab)) h1
      · exact h2 x hx

theorem le_maxR (l : List Rat) (x : Rat) (hx : x ∈ l) : x ≤ maxR l := by
  unfold maxR
  exact (maxR_ge_aux l _).2 x hx

end Skg
