import SkgVerif.Lemmas.Quantile
import SkgVerif.Lemmas.Grouping

namespace Skg

theorem pairwise_map_range {R : Rat → Rat → Prop} (f : ℕ → Rat) (n : ℕ)
    (h : ∀ i j, i < j → j < n → R (f i) (f j)) : ((List.range n).map f).Pairwise R := by
  rw [List.pairwise_map]
  have := List.pairwise_lt_range (n := n)
  refine List.Pairwise.imp_of_mem ?_ this
  intro a b _ hb hab
  exact h a b hab (List.mem_range.1 hb)

theorem evenEdges_length (n : ℕ) (m : Rat) : (evenEdges n m).length = n := by simp [evenEdges]

theorem evenEdges_get (n : ℕ) (m : Rat) (i : ℕ) (hi : i < (evenEdges n m).length) :
    (evenEdges n m)[i] = m * ((i : Rat) + 1) / (n : Rat) := by
  simp [evenEdges]

theorem uniformEdges_length (n : ℕ) (m : Rat) (ds : List Rat) : (uniformEdges n m ds).length = n := by
  simp [uniformEdges]

theorem midpointEdges_length : ∀ (cs : List Rat) (lo : Rat), (midpointEdges lo cs).length = cs.length := by
  intro cs
  induction cs with
  | nil => intro lo; rfl
  | cons c cs ih => intro lo; simp [midpointEdges, ih]

/-- mid-points of a non-decreasing chain are non-decreasing and bounded by the chain -/
theorem midpointEdges_spec : ∀ (cs : List Rat) (lo m : Rat), Mono lo cs → (∀ c ∈ cs, c ≤ m) →
    lo ≤ m → Mono lo (midpointEdges lo cs) ∧ (∀ e ∈ midpointEdges lo cs, e ≤ m) ∧
    (∀ e ∈ midpointEdges lo cs, lo ≤ e) := by
  intro cs
  induction cs with
  | nil => intro lo m _ _ _; exact ⟨trivial, by simp [midpointEdges], by simp [midpointEdges]⟩
  | cons c cs ih =>
    intro lo m hmono hle hlo
    obtain ⟨h1, h2⟩ := hmono
    have hc : c ≤ m := hle c (by simp)
    obtain ⟨ihm, ihle, ihge⟩ := ih c m h2 (fun x hx => hle x (by simp [hx])) hc
    simp only [midpointEdges]
    refine ⟨⟨by linarith, ?_⟩, ?_, ?_⟩
    · -- chain continues from (lo+c)/2 ≤ c ≤ first of the rest
      cases cs with
      | nil => trivial
      | cons c' cs' =>
        simp only [midpointEdges] at ihm ⊢
        exact ⟨by linarith [ihm.1, h2.1], ihm.2⟩
    · intro e he
      rcases List.mem_cons.1 he with rfl | he
      · linarith
      · exact ihle e he
    · intro e he
      rcases List.mem_cons.1 he with rfl | he
      · linarith
      · linarith [ihge e he]

theorem pairwise_of_mono : ∀ (es : List Rat) (lo : Rat), Mono lo es → (lo :: es).Pairwise (· ≤ ·) := by
  intro es
  induction es with
  | nil => intro lo _; simp
  | cons e es ih =>
    intro lo h
    have := ih e h.2
    rw [List.pairwise_cons] at this ⊢
    refine ⟨?_, ih e h.2⟩
    intro x hx
    rcases List.mem_cons.1 hx with rfl | hx
    · exact h.1
    · exact le_trans h.1 (this.1 x hx)

theorem maxR_ge_aux : ∀ (l : List Rat) (a : Rat),
    a ≤ l.foldl (fun a b => if a ≤ b then b else a) a ∧
    ∀ x ∈ l, x ≤ l.foldl (fun a b => if a ≤ b then b else a) a := by
  intro l
  induction l with
  | nil => intro a; simp
  | cons b l ih =>
    intro a
    simp only [List.foldl_cons]
    obtain ⟨h1, h2⟩ := ih (if a ≤ b then b else a)
    constructor
    · split_ifs at h1 ⊢ with hab
      · exact le_trans hab h1
      · exact h1
    · intro x hx
      rcases List.mem_cons.1 hx with rfl | hx
      · split_ifs at h1 ⊢ with hab
        · exact h1
        · exact le_trans (le_of_lt (not_le.1 hab)) h1
      · exact h2 x hx

theorem le_maxR (l : List Rat) (x : Rat) (hx : x ∈ l) : x ≤ maxR l := by
  unfold maxR
  exact (maxR_ge_aux l _).2 x hx


theorem sortR_ne_nil (ds : List Rat) (hne : ds ≠ []) : sortR ds ≠ [] := by
  intro h; apply hne; have := sortR_length ds; rw [h] at this
  exact List.eq_nil_of_length_eq_zero this.symm

theorem C02_quantile_mono' (ds : List Rat) (hne : ds ≠ []) {q₁ q₂ : Rat} (h0 : 0 ≤ q₁)
    (h12 : q₁ ≤ q₂) : quantile ds q₁ ≤ quantile ds q₂ := by
  unfold quantile
  exact quantileSorted_mono _ (sortR_pairwise ds) (sortR_ne_nil ds hne) h0 h12

/-- for negative levels the virtual index floors to 0 (`Nat.floor`), the interpolation factor is
negative and the node difference non-negative: still monotone -/
theorem quantile_mono_any (ds : List Rat) (hne : ds ≠ []) {q₁ q₂ : Rat} (h12 : q₁ ≤ q₂) :
    quantile ds q₁ ≤ quantile ds q₂ := by
  by_cases h0 : 0 ≤ q₁
  · exact C02_quantile_mono' ds hne h0 h12
  · have hq1 : q₁ < 0 := not_le.1 h0
    have hn : (0 : Rat) ≤ ((sortR ds).length : Rat) - 1 := by
      have : 1 ≤ (sortR ds).length := List.length_pos_iff.2 (sortR_ne_nil ds hne)
      have : (1 : Rat) ≤ ((sortR ds).length : Rat) := by exact_mod_cast this
      linarith
    have hm := nodes_mono (sortR ds) (sortR_pairwise ds)
    -- value at a negative level is below the value at level 0
    have hneg : ∀ q : Rat, q ≤ 0 → quantile ds q ≤ quantile ds 0 := by
      intro q hq
      unfold quantile
      rw [quantileSorted_eq, quantileSorted_eq]
      have hp : q * (((sortR ds).length : Rat) - 1) ≤ 0 := mul_nonpos_of_nonpos_of_nonneg hq hn
      unfold lerpAt
      have hf : ⌊q * (((sortR ds).length : Rat) - 1)⌋₊ = 0 := Nat.floor_of_nonpos hp
      rw [hf]
      simp only [zero_mul, Nat.floor_zero, Nat.cast_zero, sub_zero, zero_add]
      have hd : 0 ≤ nodes (sortR ds) 1 - nodes (sortR ds) 0 := sub_nonneg.2 (hm (Nat.zero_le 1))
      nlinarith
    by_cases h2 : 0 ≤ q₂
    · exact le_trans (hneg q₁ hq1.le) (C02_quantile_mono' ds hne (le_refl 0) h2)
    · have hq2 : q₂ < 0 := not_le.1 h2
      unfold quantile
      rw [quantileSorted_eq, quantileSorted_eq]
      unfold lerpAt
      have hp1 : q₁ * (((sortR ds).length : Rat) - 1) ≤ 0 := mul_nonpos_of_nonpos_of_nonneg hq1.le hn
      have hp2 : q₂ * (((sortR ds).length : Rat) - 1) ≤ 0 := mul_nonpos_of_nonpos_of_nonneg hq2.le hn
      rw [Nat.floor_of_nonpos hp1, Nat.floor_of_nonpos hp2]
      simp only [Nat.cast_zero, sub_zero, zero_add]
      have hd : 0 ≤ nodes (sortR ds) 1 - nodes (sortR ds) 0 := sub_nonneg.2 (hm (Nat.zero_le 1))
      have : q₁ * (((sortR ds).length : Rat) - 1) ≤ q₂ * (((sortR ds).length : Rat) - 1) :=
        mul_le_mul_of_nonneg_right h12 hn
      nlinarith

/-- `even`: exactly `n` edges, strictly increasing, equal widths, ending at `m` -/
theorem evenEdges_spec (n : ℕ) (m : Rat) (hn : 0 < n) (hm : 0 < m) :
    (evenEdges n m).length = n ∧
    (evenEdges n m).Pairwise (· < ·) ∧
    (0 :: evenEdges n m).Pairwise (· ≤ ·) ∧
    (∀ i (hi : i < (evenEdges n m).length),
        (evenEdges n m)[i] - (0 :: evenEdges n m)[i]'(by simp; omega) = m / n) ∧
    (evenEdges n m).getLast? = some m ∧
    (∀ e ∈ evenEdges n m, 0 < e ∧ e ≤ m) := by
  have hn' : (0 : Rat) < (n : Rat) := by exact_mod_cast hn
  have hlt : (evenEdges n m).Pairwise (· < ·) := by
    unfold evenEdges
    apply pairwise_map_range
    intro i j hij _
    have : (i : Rat) < (j : Rat) := by exact_mod_cast hij
    apply div_lt_div_of_pos_right _ hn'
    nlinarith
  have hmem : ∀ e ∈ evenEdges n m, 0 < e ∧ e ≤ m := by
    intro e he
    unfold evenEdges at he
    obtain ⟨i, hi, rfl⟩ := List.mem_map.1 he
    have hi' : ((i : Rat) + 1) ≤ (n : Rat) := by
      have := List.mem_range.1 hi
      exact_mod_cast this
    constructor
    · positivity
    · rw [div_le_iff₀ hn']; nlinarith
  refine ⟨evenEdges_length n m, hlt, ?_, ?_, ?_, hmem⟩
  · rw [List.pairwise_cons]
    exact ⟨fun e he => (hmem e he).1.le, hlt.imp le_of_lt⟩
  · intro i hi
    rw [evenEdges_get]
    cases i with
    | zero => simp
    | succ k =>
      have hk : k < (evenEdges n m).length := by omega
      simp only [List.getElem_cons_succ]
      rw [evenEdges_get n m k hk]
      push_cast; field_simp; ring
  · unfold evenEdges
    rw [List.getLast?_map, List.getLast?_range]
    have : n ≠ 0 := by omega
    simp only [this, if_false, Option.map_some]
    congr 1
    have h1 : 1 ≤ n := hn
    rw [Nat.cast_sub h1]; push_cast; field_simp; ring

end Skg
