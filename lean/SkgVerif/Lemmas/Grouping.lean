import SkgVerif.Model.Grouping
import Mathlib.Tactic
import Mathlib.Data.List.Basic

namespace Skg

/-- chained intervals: each `hi` is the next `lo`, non-decreasing -/
def Chained : Rat → List (Rat × Rat) → Prop
  | _, [] => True
  | lo0, (lo, hi) :: rest => lo = lo0 ∧ lo ≤ hi ∧ Chained hi rest

theorem groupAux_lt (d : Rat) : ∀ (l : List (Rat × Rat)) (lo0 : Rat) (i : Nat) (g : Int),
    Chained lo0 l → d < lo0 → groupAux d l i g = g := by
  intro l
  induction l with
  | nil => intros; rfl
  | cons p rest ih =>
    intro lo0 i g hc hd
    obtain ⟨lo, hi⟩ := p
    obtain ⟨h1, h2, h3⟩ := hc
    subst h1
    simp only [groupAux]
    have : ¬ (lo ≤ d ∧ d < hi) := fun h => absurd h.1 (not_le.2 hd)
    rw [if_neg this]
    exact ih hi (i+1) g h3 (lt_of_lt_of_le hd h2)

/-- main loop spec: for chained intervals starting at `lo0 ≤ d`, the result is the index of
the unique interval containing `d`, or the incoming `g` if `d` is at/after the last edge -/
theorem groupAux_spec (d : Rat) : ∀ (l : List (Rat × Rat)) (lo0 : Rat) (i : Nat) (g : Int),
    Chained lo0 l → lo0 ≤ d →
    (∃ k, ∃ _h : k < l.length, (l[k]).1 ≤ d ∧ d < (l[k]).2 ∧ groupAux d l i g = ((i + k : Nat) : Int)) ∨
    ((∀ p ∈ l, p.2 ≤ d) ∧ groupAux d l i g = g) := by
  intro l
  induction l with
  | nil => intro lo0 i g _ _; right; exact ⟨by simp, rfl⟩
  | cons p rest ih =>
    intro lo0 i g hc hd
    obtain ⟨lo, hi⟩ := p
    obtain ⟨h1, h2, h3⟩ := hc
    subst h1
    simp only [groupAux]
    by_cases hhi : d < hi
    · left
      refine ⟨0, by simp, hd, hhi, ?_⟩
      rw [if_pos ⟨hd, hhi⟩]
      simpa using groupAux_lt d rest hi (i+1) (i:Int) h3 hhi
    · have hle : hi ≤ d := not_lt.1 hhi
      rw [if_neg (fun h => hhi h.2)]
      rcases ih hi (i+1) g h3 hle with ⟨k, hk, ha, hb, hc⟩ | ⟨hall, hg⟩
      · left
        refine ⟨k+1, by simpa using hk, by simpa using ha, by simpa using hb, ?_⟩
        rw [hc]; push_cast; ring
      · right
        refine ⟨?_, hg⟩
        intro p hp
        rcases List.mem_cons.1 hp with rfl | hp
        · exact hle
        · exact hall p hp

end Skg

namespace Skg

/-- running chain `lo ≤ e₀ ≤ e₁ ≤ …` -/
def Mono : Rat → List Rat → Prop
  | _, [] => True
  | lo, e :: es => lo ≤ e ∧ Mono e es

theorem mono_of_pairwise : ∀ (es : List Rat) (lo : Rat), (lo :: es).Pairwise (· ≤ ·) → Mono lo es := by
  intro es
  induction es with
  | nil => intros; trivial
  | cons e es ih =>
    intro lo h
    rw [List.pairwise_cons] at h
    exact ⟨h.1 e (by simp), ih e h.2⟩

theorem chained_intervals : ∀ (es : List Rat) (lo : Rat), Mono lo es →
    Chained lo (List.zip (lo :: es) es) := by
  intro es
  induction es with
  | nil => intros; trivial
  | cons e es ih =>
    intro lo h
    simp only [List.zip_cons_cons]
    exact ⟨rfl, h.1, ih e h.2⟩

theorem intervals_length (es : List Rat) : (intervals es).length = es.length := by
  simp [intervals]

theorem intervals_get (es : List Rat) (k : Nat) (hk : k < es.length) :
    (intervals es)[k]'(by simpa [intervals] using hk) = ((0 :: es)[k]'(by simp; omega), es[k]) := by
  simp [intervals]

/-- in a non-decreasing chain the half-open interval containing `d` is unique -/
theorem interval_unique (es : List Rat) (h : (0 :: es).Pairwise (· ≤ ·)) (d : Rat)
    (k k' : Nat) (hk : k < es.length) (hk' : k' < es.length)
    (h1 : (0 :: es)[k]'(by simp; omega) ≤ d ∧ d < es[k])
    (h2 : (0 :: es)[k']'(by simp; omega) ≤ d ∧ d < es[k']) : k = k' := by
  rw [List.pairwise_iff_getElem] at h
  by_contra hne
  rcases Nat.lt_or_gt_of_ne hne with hlt | hlt
  · have : (0 :: es)[k+1]'(by simp; omega) ≤ (0 :: es)[k']'(by simp; omega) := by
      rcases Nat.eq_or_lt_of_le (Nat.succ_le_of_lt hlt) with e | l
      · simp only [Nat.succ_eq_add_one] at e; simp [e]
      · exact h (k+1) k' (by simp; omega) (by simp; omega) l
    have e : (0 :: es)[k+1]'(by simp; omega) = es[k] := by simp
    rw [e] at this
    exact absurd (lt_of_le_of_lt (le_trans this h2.1) h1.2) (lt_irrefl _)
  · have : (0 :: es)[k'+1]'(by simp; omega) ≤ (0 :: es)[k]'(by simp; omega) := by
      rcases Nat.eq_or_lt_of_le (Nat.succ_le_of_lt hlt) with e | l
      · simp only [Nat.succ_eq_add_one] at e; simp [e]
      · exact h (k'+1) k (by simp; omega) (by simp; omega) l
    have e : (0 :: es)[k'+1]'(by simp; omega) = es[k'] := by simp
    rw [e] at this
    exact absurd (lt_of_le_of_lt (le_trans this h1.1) h2.2) (lt_irrefl _)

/-- the loop, specialised to edges -/
theorem groupLoop_cases (es : List Rat) (h : (0 :: es).Pairwise (· ≤ ·)) (d : Rat) (hd : 0 ≤ d) :
    (∃ k, ∃ hk : k < es.length, (0 :: es)[k]'(by simp; omega) ≤ d ∧ d < es[k] ∧
        groupLoop es d = (k : Int)) ∨
    ((∀ e ∈ es, e ≤ d) ∧ groupLoop es d = -1) := by
  have hc := chained_intervals es 0 (mono_of_pairwise es 0 h)
  rcases groupAux_spec d (intervals es) 0 0 (-1) hc hd with ⟨k, hk, ha, hb, hg⟩ | ⟨hall, hg⟩
  · left
    have hk' : k < es.length := by simpa [intervals] using hk
    refine ⟨k, hk', ?_, ?_, ?_⟩
    · have := intervals_get es k hk'; rw [this] at ha; exact ha
    · have := intervals_get es k hk'; rw [this] at hb; exact hb
    · unfold groupLoop; rw [hg]; simp
  · right
    refine ⟨?_, hg⟩
    intro e he
    obtain ⟨k, hk, rfl⟩ := List.getElem_of_mem he
    have hm : (intervals es)[k]'(by simpa [intervals] using hk) ∈ intervals es := List.getElem_mem _
    have := hall _ hm
    rw [intervals_get es k hk] at this
    exact this

end Skg
