import Mathlib.Algebra.BigOperators.Field
import Mathlib.Algebra.Order.BigOperators.Ring.Finset
import Mathlib.LinearAlgebra.Matrix.NonsingularInverse
import Mathlib.Tactic

open Finset BigOperators

namespace Skg

variable {α : Type*} [Field α] {n : ℕ}

/-- `(w, μ)` solves the ordinary-kriging system for the semivariance block `G` (zero diagonal is
*not* assumed) and right-hand side `g0`: `Σ_j G i j w_j + μ = g0 i` for all i, `Σ w = 1` -/
def IsOKSol (G : Fin n → Fin n → α) (g0 : Fin n → α) (w : Fin n → α) (μ : α) : Prop :=
  (∀ i, ∑ j, G i j * w j + μ = g0 i) ∧ ∑ j, w j = 1

def est (w v : Fin n → α) : α := ∑ j, w j * v j
def kvar (g0 w : Fin n → α) (μ : α) : α := ∑ j, g0 j * w j + μ

theorem est_shift {G : Fin n → Fin n → α} {g0 w μ} (h : IsOKSol G g0 w μ) (v : Fin n → α) (c : α) :
    est w (fun j => v j + c) = est w v + c := by
  unfold est
  simp only [mul_add, sum_add_distrib, ← sum_mul, h.2, one_mul]

theorem est_const {G : Fin n → Fin n → α} {g0 w μ} (h : IsOKSol G g0 w μ) (c : α) :
    est w (fun _ => c) = c := by
  unfold est; rw [← sum_mul, h.2, one_mul]

theorem est_scale (w v : Fin n → α) (k : α) : est w (fun j => k * v j) = k * est w v := by
  unfold est; rw [mul_sum]; apply sum_congr rfl; intros; ring

theorem scale_sol {G : Fin n → Fin n → α} {g0 w μ} (h : IsOKSol G g0 w μ) (c : α) :
    IsOKSol (fun i j => c * G i j) (fun i => c * g0 i) w (c * μ) := by
  refine ⟨fun i => ?_, h.2⟩
  have := h.1 i
  calc ∑ j, c * G i j * w j + c * μ = c * (∑ j, G i j * w j + μ) := by
        rw [mul_add, mul_sum]; congr 1; apply sum_congr rfl; intros; ring
    _ = c * g0 i := by rw [this]

theorem kvar_scale (g0 w : Fin n → α) (μ c : α) :
    kvar (fun i => c * g0 i) w (c * μ) = c * kvar g0 w μ := by
  unfold kvar; rw [mul_add, mul_sum]; congr 1; apply sum_congr rfl; intros; ring

/-- exactness: unique solution + the target coincides with observation `k` + γ(0)=0 -/
theorem exact_at_obs (G : Fin n → Fin n → α) (g0 : Fin n → α) (k : Fin n)
    (hcol : ∀ i, g0 i = G i k) (hzero : G k k = 0)
    (w : Fin n → α) (μ : α) (h : IsOKSol G g0 w μ)
    (uniq : ∀ w' μ', IsOKSol G g0 w' μ' → w' = w ∧ μ' = μ) (v : Fin n → α) :
    est w v = v k ∧ kvar g0 w μ = 0 := by
  have hs : IsOKSol G g0 (fun j => if j = k then 1 else 0) 0 := by
    refine ⟨fun i => ?_, ?_⟩
    · simp [hcol i]
    · simp
  obtain ⟨hw, hμ⟩ := uniq _ _ hs
  subst hw; subst hμ
  constructor
  · simp [est]
  · simp [kvar, hcol k, hzero]

/-- variance as a quadratic form: `σ² = 2 Σ w g0 − ΣΣ w w G` -/
theorem kvar_quadratic {G : Fin n → Fin n → α} {g0 w μ} (h : IsOKSol G g0 w μ) :
    kvar g0 w μ = 2 * ∑ i, w i * g0 i - ∑ i, ∑ j, w i * w j * G i j := by
  have e1 : ∑ i, w i * g0 i = ∑ i, ∑ j, w i * w j * G i j + μ := by
    calc ∑ i, w i * g0 i = ∑ i, w i * (∑ j, G i j * w j + μ) := by
          apply sum_congr rfl; intro i _; rw [h.1 i]
      _ = ∑ i, (∑ j, w i * w j * G i j + w i * μ) := by
          apply sum_congr rfl; intro i _; rw [mul_add, mul_sum]; congr 1
          apply sum_congr rfl; intros; ring
      _ = ∑ i, ∑ j, w i * w j * G i j + μ := by
          rw [sum_add_distrib, ← sum_mul, h.2, one_mul]
  unfold kvar
  have : ∑ j, g0 j * w j = ∑ i, w i * g0 i := by apply sum_congr rfl; intros; ring
  rw [this]; linear_combination (-1 : α) * e1

/-- any two solvers that return *a* solution of a system with invertible matrix agree -/
theorem solve_unique {m : Type*} [Fintype m] [DecidableEq m] (A B : Matrix m m α) (b x y : m → α)
    (hAB : A * B = 1) (hx : A.mulVec x = b) (hy : A.mulVec y = b) : x = y := by
  have hBA : B * A = 1 := mul_eq_one_comm.1 hAB
  have e : ∀ z, A.mulVec z = b → z = B.mulVec b := by
    intro z hz
    rw [← hz, Matrix.mulVec_mulVec, hBA, Matrix.one_mulVec]
  rw [e x hx, e y hy]

end Skg
