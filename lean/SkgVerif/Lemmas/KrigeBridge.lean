import SkgVerif.Lemmas.Kriging
import SkgVerif.Lemmas.KrigeAlgebra
import SkgVerif.Lemmas.PermInv

open Finset BigOperators

namespace Skg

theorem sum_map_range (g : ℕ → Rat) : ∀ n : ℕ, ((List.range n).map g).sum = ∑ j ∈ Finset.range n, g j := by
  intro n
  induction n with
  | zero => simp
  | succ n ih => rw [List.range_succ, List.map_append, List.sum_append, ih, Finset.sum_range_succ]; simp

theorem zipWith_range (f : ℕ → Rat) (n : ℕ) (w : List Rat) (hw : w.length = n) :
    List.zipWith (· * ·) ((List.range n).map f) w = (List.range n).map (fun j => f j * w.getD j 0) := by
  apply List.ext_getElem
  · simp [hw]
  · intro i h1 h2
    have hi : i < n := by simpa using h2
    have hiw : i < w.length := by omega
    simp only [List.getElem_zipWith, List.getElem_map, List.getElem_range]
    rw [List.getD_eq_getElem?_getD, List.getElem?_eq_getElem hiw]; rfl

theorem dot_range (f : ℕ → Rat) (n : ℕ) (w : List Rat) (hw : w.length = n) :
    dot ((List.range n).map f) w = ∑ j ∈ Finset.range n, f j * w.getD j 0 := by
  unfold dot
  rw [sumR_eq_sum, zipWith_range f n w hw, sum_map_range]

theorem dot_append (a w : List Rat) (c μ : Rat) (h : a.length = w.length) :
    dot (a ++ [c]) (w ++ [μ]) = dot a w + c * μ := by
  unfold dot
  rw [sumR_eq_sum, sumR_eq_sum, List.zipWith_append h]
  simp

/-- the assembled list system *is* the ordinary-kriging equations: for a candidate solution
`w ++ [μ]`, `A·x = b` holds iff every observation equation and the unbiasedness constraint hold -/
theorem system_iff (n : ℕ) (G : ℕ → ℕ → Rat) (g0 : ℕ → Rat) (w : List Rat) (μ : Rat)
    (hw : w.length = n) :
    mulVec (assemble n G) (w ++ [μ]) = rhs n g0 ↔
      (∀ i, i < n → (∑ j ∈ Finset.range n, (if i = j then 0 else G i j) * w.getD j 0) + μ = g0 i) ∧
      ∑ j ∈ Finset.range n, w.getD j 0 = 1 := by
  have hrow : ∀ i, dot (((List.range n).map fun j => if i = j then 0 else G i j) ++ [1]) (w ++ [μ]) =
      (∑ j ∈ Finset.range n, (if i = j then 0 else G i j) * w.getD j 0) + μ := by
    intro i
    rw [dot_append _ _ _ _ (by simp [hw]), dot_range _ n w hw]; ring
  have hlast : dot (((List.range n).map fun _ => (1 : Rat)) ++ [0]) (w ++ [μ]) =
      ∑ j ∈ Finset.range n, w.getD j 0 := by
    rw [dot_append _ _ _ _ (by simp [hw]), dot_range _ n w hw]; simp
  unfold mulVec assemble rhs
  rw [List.map_append, List.map_map, List.map_cons, List.map_nil, hlast]
  constructor
  · intro h
    obtain ⟨h1, h2⟩ := List.append_inj' h (by simp)
    refine ⟨?_, by simpa using h2⟩
    intro i hi
    have := (List.map_inj_left.1 h1) i (List.mem_range.2 hi)
    simp only [Function.comp] at this
    rw [hrow i] at this; exact this
  · rintro ⟨h1, h2⟩
    congr 1
    · apply List.map_congr_left
      intro i hi
      simp only [Function.comp]
      rw [hrow i]; exact h1 i (List.mem_range.1 hi)
    · rw [h2]

/-- … and these are exactly `IsOKSol` for the zero-diagonal semivariance block -/
theorem system_iff_isOKSol (n : ℕ) (G : ℕ → ℕ → Rat) (g0 : ℕ → Rat) (w : List Rat) (μ : Rat)
    (hw : w.length = n) :
    mulVec (assemble n G) (w ++ [μ]) = rhs n g0 ↔
      IsOKSol (n := n) (fun i j => if (i : ℕ) = (j : ℕ) then 0 else G i j) (fun i => g0 i)
        (fun j => w.getD j 0) μ := by
  rw [system_iff n G g0 w μ hw]
  unfold IsOKSol
  constructor
  · rintro ⟨h1, h2⟩
    refine ⟨fun i => ?_, ?_⟩
    · have := h1 i i.2
      rw [Finset.sum_range] at this
      simpa using this
    · rw [Finset.sum_range] at h2; simpa using h2
  · rintro ⟨h1, h2⟩
    refine ⟨fun i hi => ?_, ?_⟩
    · have := h1 ⟨i, hi⟩
      rw [Finset.sum_range]
      simpa using this
    · rw [Finset.sum_range]; simpa using h2

end Skg
