import SkgVerif.Model.Kriging
import Mathlib.Tactic
import Mathlib.Data.List.Sort

namespace Skg

/-! ## stable sort by distance -/

def leP (a b : Rat × Nat) : Prop := a.1 ≤ b.1
instance : DecidableRel leP := fun a b => inferInstanceAs (Decidable (a.1 ≤ b.1))
instance : Std.Total leP := ⟨fun a b => le_total a.1 b.1⟩
instance : IsTrans (Rat × Nat) leP := ⟨fun _ _ _ h1 h2 => le_trans h1 h2⟩

theorem insP_eq (a : Rat × Nat) (l : List (Rat × Nat)) : insP a l = l.orderedInsert leP a := by
  induction l with
  | nil => rfl
  | cons b l ih =>
    simp only [insP, List.orderedInsert_cons, ih, leP]
    by_cases h : a.1 ≤ b.1 <;> simp [h]

theorem sortP_eq (l : List (Rat × Nat)) : sortP l = l.insertionSort leP := by
  induction l with
  | nil => rfl
  | cons b l ih => simp only [sortP, List.insertionSort_cons, ih, insP_eq]

theorem sortP_pairwise (l : List (Rat × Nat)) : (sortP l).Pairwise leP := by
  rw [sortP_eq]; exact List.pairwise_insertionSort _ l

theorem sortP_perm (l : List (Rat × Nat)) : (sortP l).Perm l := by
  rw [sortP_eq]; exact List.perm_insertionSort _ l

/-- the selected candidates: a sub-multiset of the candidates of size `min N |cands|`, none of
them farther than any rejected candidate -/
theorem selectFrom_spec (cands : List (Rat × Nat)) (N : ℕ) :
    ∃ sel rest : List (Rat × Nat), selectFrom cands N = sel.map (·.2) ∧
      (sel ++ rest).Perm cands ∧ sel.length = min N cands.length ∧
      ∀ a ∈ sel, ∀ b ∈ rest, a.1 ≤ b.1 := by
  unfold selectFrom
  by_cases h : cands.length > N
  · refine ⟨(sortP cands).take N, (sortP cands).drop N, by simp [h], ?_, ?_, ?_⟩
    · rw [List.take_append_drop]; exact sortP_perm cands
    · rw [List.length_take, (sortP_perm cands).length_eq]
    · have hp := sortP_pairwise cands
      rw [← List.take_append_drop N (sortP cands), List.pairwise_append] at hp
      exact fun a ha b hb => hp.2.2 a ha b hb
  · refine ⟨cands, [], by simp [h], by simp, ?_, by simp⟩
    omega

/-- with pairwise distinct distances there is no tie to break: the sorted candidate list does
not depend on the order in which the candidates were stored -/
theorem sortP_eq_of_perm (c₁ c₂ : List (Rat × ℕ)) (h : c₁.Perm c₂)
    (hd : (c₁.map (·.1)).Nodup) : sortP c₁ = sortP c₂ := by
  apply List.Perm.eq_of_pairwise (le := leP) _ (sortP_pairwise c₁) (sortP_pairwise c₂)
    ((sortP_perm c₁).trans (h.trans (sortP_perm c₂).symm))
  intro a b ha hb hab hba
  have ha' : a ∈ c₁ := (sortP_perm c₁).mem_iff.1 ha
  have hb' : b ∈ c₁ := h.mem_iff.2 ((sortP_perm c₂).mem_iff.1 hb)
  exact List.inj_on_of_nodup_map hd ha' hb' (le_antisymm hab hba)

/-- the selection from candidates stored in another order is the same up to order, provided the
candidate distances are pairwise distinct -/
theorem selectFrom_perm (c₁ c₂ : List (Rat × ℕ)) (h : c₁.Perm c₂)
    (hd : (c₁.map (·.1)).Nodup) (N : ℕ) : (selectFrom c₁ N).Perm (selectFrom c₂ N) := by
  unfold selectFrom
  rw [← h.length_eq]
  by_cases hl : c₁.length > N
  · simp only [hl, if_true]
    rw [sortP_eq_of_perm c₁ c₂ h hd]
  · simp only [hl, if_false]
    exact h.map _

theorem mem_candidatesDense (row : List Rat) (maxDist : Rat) (d : Rat) (i : ℕ) :
    (d, i) ∈ candidatesDense row maxDist ↔ (row[i]? = some d ∧ d ≤ maxDist) := by
  unfold candidatesDense
  rw [List.mem_filter, List.mem_zipIdx_iff_getElem?]
  simp

/-! ## bookkeeping -/

def sigOf : Outcome → Option Rat
  | .ok _ sg => some sg
  | _ => none

def zOf : Outcome → Option Rat
  | .ok z _ => some z
  | _ => none

def isLess : Outcome → Bool
  | .lessPoints => true
  | _ => false

def isSing : Outcome → Bool
  | .singular => true
  | _ => false

/-- the state after the outcomes `pre` of a call with `total` targets -/
def specState (total : ℕ) (pre : List Outcome) : KState :=
  { sigma := pre.map sigOf ++ List.replicate (total - pre.length) none,
    cursor := pre.length,
    noPoints := pre.countP isLess,
    singular := pre.countP isSing,
    z := pre.map zOf }

theorem set_append_replicate (l : List (Option Rat)) (k : ℕ) (hk : 0 < k) (x : Option Rat) :
    (l ++ List.replicate k none).set l.length x = l ++ [x] ++ List.replicate (k - 1) none := by
  obtain ⟨k', rfl⟩ : ∃ k', k = k' + 1 := ⟨k - 1, by omega⟩
  rw [List.replicate_succ, List.set_append_right _ _ (le_refl _)]
  simp

theorem step_spec (total : ℕ) (pre : List Outcome) (o : Outcome) (h : pre.length < total) :
    stepEstimator (specState total pre) o = specState total (pre ++ [o]) := by
  have hk : 0 < total - pre.length := by omega
  have hlen : (pre.map sigOf).length = pre.length := by simp
  cases o with
  | ok z sg =>
    simp only [stepEstimator, specState, List.map_append, List.map_cons, List.map_nil,
      List.length_append, List.length_cons, List.length_nil, List.countP_append, List.countP_cons,
      List.countP_nil, isLess, isSing, sigOf, zOf]
    congr 1
    · have := set_append_replicate (pre.map sigOf) (total - pre.length) hk (some sg)
      rw [hlen] at this
      rw [this]; congr 2
  | lessPoints =>
    simp only [stepEstimator, specState, List.map_append, List.map_cons, List.map_nil,
      List.length_append, List.length_cons, List.length_nil, List.countP_append, List.countP_cons,
      List.countP_nil, isLess, isSing, sigOf, zOf]
    congr 1
    · obtain ⟨k', hk'⟩ : ∃ k', total - pre.length = k' + 1 := ⟨total - pre.length - 1, by omega⟩
      have : total - (pre.length + (0 + 1)) = k' := by omega
      rw [hk', this, List.replicate_succ]; simp
  | singular =>
    simp only [stepEstimator, specState, List.map_append, List.map_cons, List.map_nil,
      List.length_append, List.length_cons, List.length_nil, List.countP_append, List.countP_cons,
      List.countP_nil, isLess, isSing, sigOf, zOf]
    congr 1
    · obtain ⟨k', hk'⟩ : ∃ k', total - pre.length = k' + 1 := ⟨total - pre.length - 1, by omega⟩
      have : total - (pre.length + (0 + 1)) = k' := by omega
      rw [hk', this, List.replicate_succ]; simp

theorem foldl_spec (total : ℕ) : ∀ (rest pre : List Outcome), pre.length + rest.length = total →
    rest.foldl stepEstimator (specState total pre) = specState total (pre ++ rest) := by
  intro rest
  induction rest with
  | nil => intro pre _; simp
  | cons o rest ih =>
    intro pre h
    simp only [List.foldl_cons]
    rw [step_spec total pre o (by simp at h; omega)]
    have := ih (pre ++ [o]) (by simp at h ⊢; omega)
    rw [this]; simp

theorem transformLoop_spec (outcomes : List Outcome) :
    transformLoop outcomes = specState outcomes.length outcomes := by
  unfold transformLoop
  have h0 : initState outcomes.length = specState outcomes.length [] := by
    simp [initState, specState]
  rw [h0, foldl_spec outcomes.length outcomes [] (by simp)]
  simp

end Skg
