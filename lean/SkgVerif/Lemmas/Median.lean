import SkgVerif.Lemmas.Quantile

namespace Skg

/-- `np.median` is the 50th percentile of NumPy's linear-interpolation definition -/
theorem median_eq_quantile_half (xs : List Rat) (hne : xs ≠ []) :
    median xs = some (quantile xs (1 / 2)) := by
  unfold median quantile
  set s := sortR xs with hs
  have hlen : s.length = xs.length := sortR_length xs
  have hpos : 0 < s.length := by rw [hlen]; exact List.length_pos_iff.2 hne
  have hn0 : s.length ≠ 0 := by omega
  simp only [hn0, if_false]
  rw [quantileSorted_eq]
  unfold lerpAt
  rcases Nat.even_or_odd' s.length with ⟨m, hm | hm⟩
  · -- even length 2m, m ≥ 1
    have hm1 : 1 ≤ m := by omega
    have hmod : s.length % 2 ≠ 1 := by omega
    simp only [hmod, if_false]
    have hp : (1 / 2 : Rat) * ((s.length : Rat) - 1) = (m : Rat) - 1 / 2 := by
      rw [hm]; push_cast; ring
    rw [hp]
    have hfl : ⌊(m : Rat) - 1 / 2⌋₊ = m - 1 := by
      rw [Nat.floor_eq_iff (by
        have : (1 : Rat) ≤ (m : Rat) := by exact_mod_cast hm1
        linarith)]
      constructor
      · rw [Nat.cast_sub hm1]; push_cast; linarith
      · rw [Nat.cast_sub hm1]; push_cast; linarith
    rw [hfl]
    have e1 : m - 1 + 1 = m := by omega
    rw [e1]
    have hd1 : s.length / 2 - 1 = m - 1 := by omega
    have hd2 : s.length / 2 = m := by omega
    rw [hd1, hd2]
    have hn1 : nodes s (m - 1) = s.getD (m - 1) 0 := by
      unfold nodes; congr 1; omega
    have hn2 : nodes s m = s.getD m 0 := by
      unfold nodes; congr 1; omega
    rw [hn1, hn2, Nat.cast_sub hm1]
    congr 1; push_cast; ring
  · -- odd length 2m+1
    have hmod : s.length % 2 = 1 := by omega
    simp only [hmod, if_true]
    have hp : (1 / 2 : Rat) * ((s.length : Rat) - 1) = (m : Rat) := by
      rw [hm]; push_cast; ring
    rw [hp, Nat.floor_natCast]
    have hd : s.length / 2 = m := by omega
    rw [hd]
    have hn : nodes s m = s.getD m 0 := by
      unfold nodes; congr 1; omega
    rw [hn]; simp

end Skg
