import SkgVerif.Gen.ModelsReal
import Mathlib.Analysis.Complex.ExponentialBounds
import Mathlib.Analysis.SpecialFunctions.Pow.Real
import Mathlib.Analysis.Calculus.Deriv.MeanValue
import Mathlib.Analysis.Calculus.Deriv.Polynomial
import Mathlib.Analysis.SpecialFunctions.Pow.Asymptotics
import Mathlib.Tactic

open Real

namespace Skg

/-! ## numeric facts -/

theorem exp_neg_three_le : Real.exp (-3) ≤ 0.05 := by
  have h3 : Real.exp 3 = (Real.exp 1) ^ 3 := by
    rw [← Real.exp_nat_mul]; norm_num
  have hgt := Real.exp_one_gt_d9
  have : (20:ℝ) ≤ Real.exp 3 := by
    rw [h3]
    have : (2.7182818283:ℝ)^3 ≤ (Real.exp 1)^3 := pow_le_pow_left₀ (by norm_num) hgt.le 3
    linarith [show (20:ℝ) ≤ (2.7182818283:ℝ)^3 by norm_num]
  rw [Real.exp_neg, inv_le_comm₀ (Real.exp_pos 3) (by norm_num)]
  linarith [show ((0.05:ℝ))⁻¹ = 20 by norm_num]

theorem exp_neg_four_le : Real.exp (-4) ≤ 0.05 :=
  le_trans (Real.exp_le_exp.2 (by norm_num)) exp_neg_three_le

/-! ## a generic shape lemma: `b + c0 * f` inherits everything from `f` -/

theorem affine_mono {c0 b x y : ℝ} (hc : 0 ≤ c0) (h : x ≤ y) : b + c0 * x ≤ b + c0 * y := by
  nlinarith [mul_le_mul_of_nonneg_left h hc]

theorem affine_bounds {c0 b x : ℝ} (hc : 0 ≤ c0) (h0 : 0 ≤ x) (h1 : x ≤ 1) :
    b ≤ b + c0 * x ∧ b + c0 * x ≤ b + c0 := by
  constructor <;> nlinarith [mul_nonneg hc h0, mul_le_mul_of_nonneg_left h1 hc]

/-! ## spherical -/

/-- the spherical shape `3/2 x − 1/2 x³` on `[0, 1]` -/
noncomputable def sphShape (x : ℝ) : ℝ := 3 / 2 * x - 1 / 2 * x ^ 3

theorem sphShape_mono {x y : ℝ} (hx : 0 ≤ x) (hxy : x ≤ y) (hy : y ≤ 1) : sphShape x ≤ sphShape y := by
  unfold sphShape
  nlinarith [mul_nonneg hx (sub_nonneg.2 hxy), sq_nonneg (x - y), sq_nonneg (x + y),
    mul_nonneg (sub_nonneg.2 hxy) (sub_nonneg.2 hy), mul_nonneg hx hx,
    mul_nonneg (mul_nonneg hx hx) (sub_nonneg.2 hxy)]

theorem sphShape_le_one {x : ℝ} (hx : 0 ≤ x) (hx1 : x ≤ 1) : sphShape x ≤ 1 := by
  unfold sphShape
  nlinarith [sq_nonneg (x - 1), mul_nonneg hx (sq_nonneg (x - 1))]

theorem sphShape_nonneg {x : ℝ} (hx : 0 ≤ x) (hx1 : x ≤ 1) : 0 ≤ sphShape x := by
  unfold sphShape
  nlinarith [mul_nonneg hx (sub_nonneg.2 hx1), mul_nonneg hx hx, mul_nonneg (mul_nonneg hx hx) (sub_nonneg.2 hx1)]

theorem spherical_eq (h r c0 b : ℝ) :
    Gen.spherical h r c0 b = if h ≤ r then b + c0 * sphShape (h / r) else b + c0 := by
  unfold Gen.spherical sphShape
  simp only [div_one]

/-! ## exponential / gaussian -/

theorem exponential_eq (h r c0 b : ℝ) :
    Gen.exponential h r c0 b = b + c0 * (1 - Real.exp (-(h / (r / 3)))) := rfl

theorem gaussian_eq (h r c0 b : ℝ) :
    Gen.gaussian h r c0 b = b + c0 * (1 - Real.exp (-(h ^ 2 / (r / 2) ^ 2))) := rfl

theorem one_sub_exp_neg_bounds {t : ℝ} (ht : 0 ≤ t) : 0 ≤ 1 - Real.exp (-t) ∧ 1 - Real.exp (-t) ≤ 1 := by
  have h1 : Real.exp (-t) ≤ 1 := Real.exp_le_one_iff.2 (by linarith)
  have h2 := Real.exp_pos (-t)
  constructor <;> linarith

theorem one_sub_exp_neg_mono {s t : ℝ} (h : s ≤ t) : 1 - Real.exp (-s) ≤ 1 - Real.exp (-t) := by
  have : Real.exp (-t) ≤ Real.exp (-s) := Real.exp_le_exp.2 (by linarith)
  linarith


/-! ## cubic -/

noncomputable def cubShape (x : ℝ) : ℝ := 7 * x^2 - (35/4) * x^3 + (7/2) * x^5 - (3/4) * x^7

theorem cubShape_hasDeriv (x : ℝ) :
    HasDerivAt cubShape (14 * x - (105/4) * x^2 + (35/2) * x^4 - (21/4) * x^6) x := by
  unfold cubShape
  have h2 := (hasDerivAt_pow 2 x).const_mul (7:ℝ)
  have h3 := (hasDerivAt_pow 3 x).const_mul (35/4:ℝ)
  have h5 := (hasDerivAt_pow 5 x).const_mul (7/2:ℝ)
  have h7 := (hasDerivAt_pow 7 x).const_mul (3/4:ℝ)
  have := ((h2.sub h3).add h5).sub h7
  refine this.congr_deriv ?_
  norm_num
  ring

theorem cubShape_deriv_nonneg (x : ℝ) (h0 : 0 ≤ x) (h1 : x ≤ 1) :
    0 ≤ 14 * x - (105/4) * x^2 + (35/2) * x^4 - (21/4) * x^6 := by
  have : 14 * x - (105/4) * x^2 + (35/2) * x^4 - (21/4) * x^6
      = (7/4) * x * (1 - x)^3 * (8 + 9*x + 3*x^2) := by ring
  rw [this]
  have h1x : 0 ≤ 1 - x := by linarith
  positivity

theorem cubShape_monoOn : MonotoneOn cubShape (Set.Icc 0 1) := by
  apply monotoneOn_of_deriv_nonneg (convex_Icc 0 1)
  · exact (continuous_iff_continuousAt.2 fun x => (cubShape_hasDeriv x).continuousAt).continuousOn
  · intro x _; exact (cubShape_hasDeriv x).differentiableAt.differentiableWithinAt
  · intro x hx
    rw [interior_Icc] at hx
    rw [(cubShape_hasDeriv x).deriv]
    exact cubShape_deriv_nonneg x hx.1.le hx.2.le

theorem cubShape_zero : cubShape 0 = 0 := by unfold cubShape; norm_num
theorem cubShape_one : cubShape 1 = 1 := by unfold cubShape; norm_num

theorem cubShape_mono {x y : ℝ} (hx : 0 ≤ x) (hxy : x ≤ y) (hy : y ≤ 1) : cubShape x ≤ cubShape y :=
  cubShape_monoOn ⟨hx, hxy.trans hy⟩ ⟨hx.trans hxy, hy⟩ hxy

theorem cubShape_bounds {x : ℝ} (hx : 0 ≤ x) (hx1 : x ≤ 1) : 0 ≤ cubShape x ∧ cubShape x ≤ 1 := by
  constructor
  · rw [← cubShape_zero]; exact cubShape_mono le_rfl hx hx1
  · rw [← cubShape_one]; exact cubShape_mono hx hx1 le_rfl

theorem cubic_eq (h r c0 b : ℝ) :
    Gen.cubic h r c0 b = if h < r then b + c0 * cubShape (h / r) else b + c0 := by
  unfold Gen.cubic cubShape
  simp only [div_one, div_pow]

/-! ## stable -/

theorem stable_eq (h r c0 s b : ℝ) :
    Gen.stable h r c0 s b =
      if h = 0 then b else b + c0 * (1 - Real.exp (-((h / (r / (3:ℝ) ^ (1 / s))) ^ s))) := by
  unfold Gen.stable
  simp only [Real.rpow_eq_pow]

/-- at the effective range the exponent is exactly 3 -/
theorem stable_exponent_at_range (r s : ℝ) (hr : 0 < r) (hs : 0 < s) :
    (r / (r / (3:ℝ) ^ (1 / s))) ^ s = 3 := by
  have h3 : (0:ℝ) < (3:ℝ) ^ (1 / s) := Real.rpow_pos_of_pos (by norm_num) _
  have : r / (r / (3:ℝ) ^ (1 / s)) = (3:ℝ) ^ (1 / s) := by field_simp
  rw [this, ← Real.rpow_mul (by norm_num : (0:ℝ) ≤ 3)]
  have : 1 / s * s = 1 := by field_simp
  rw [this, Real.rpow_one]

theorem stable_scale_pos (r s : ℝ) (hr : 0 < r) : 0 < r / (3:ℝ) ^ (1 / s) :=
  div_pos hr (Real.rpow_pos_of_pos (by norm_num) _)

end Skg
