import SkgVerif.Model.Grouping
import Mathlib.Tactic
import Mathlib.Data.List.Basic
import Mathlib.Data.List.Nodup

namespace Skg

theorem mem_pairsFrom (n i : Nat) (p : Nat × Nat) :
    p ∈ pairsFrom n i ↔ p.1 = i ∧ i < p.2 ∧ p.2 < n := by
  unfold pairsFrom
  simp only [List.mem_map, List.mem_range]
  constructor
  · rintro ⟨k, hk, rfl⟩; simp; omega
  · rintro ⟨h1, h2, h3⟩
    refine ⟨p.2 - (i+1), by omega, ?_⟩
    ext <;> simp <;> omega

theorem mem_pairs (n : Nat) (p : Nat × Nat) : p ∈ pairs n ↔ p.1 < p.2 ∧ p.2 < n := by
  unfold pairs
  simp only [List.mem_flatMap, List.mem_range, mem_pairsFrom]
  constructor
  · rintro ⟨i, _, h1, h2, h3⟩; omega
  · rintro ⟨h1, h2⟩; exact ⟨p.1, by omega, rfl, h1, h2⟩

theorem nodup_pairsFrom (n i : Nat) : (pairsFrom n i).Nodup := by
  unfold pairsFrom
  apply List.Nodup.map _ List.nodup_range
  intro a b h
  simp only [Prod.mk.injEq, true_and] at h
  omega

theorem nodup_pairs (n : Nat) : (pairs n).Nodup := by
  unfold pairs
  rw [List.nodup_flatMap]
  refine ⟨fun i _ => nodup_pairsFrom n i, ?_⟩
  apply List.Pairwise.imp_of_mem (R := fun a b => a ≠ b)
  · intro a b _ _ hab
    show List.Disjoint _ _
    rw [List.disjoint_left]
    intro p hp hq
    rw [mem_pairsFrom] at hp hq
    exact hab (hp.1.symm.trans hq.1)
  · exact List.nodup_range

theorem length_pairsFrom (n i : Nat) : (pairsFrom n i).length = n - (i+1) := by
  simp [pairsFrom]

end Skg
