import SkgVerif.Lemmas.Classes
import SkgVerif.Lemmas.Edges
import SkgVerif.Lemmas.Pairs

namespace Skg

/-! ## order-free aggregation -/

theorem sumR_eq_sum (l : List Rat) : sumR l = l.sum := by
  unfold sumR
  rw [List.sum_eq_foldl]

theorem sumR_perm {l₁ l₂ : List Rat} (h : l₁.Perm l₂) : sumR l₁ = sumR l₂ := by
  rw [sumR_eq_sum, sumR_eq_sum]; exact h.sum_eq

theorem matheron_perm {l₁ l₂ : List Rat} (h : l₁.Perm l₂) : matheron l₁ = matheron l₂ := by
  unfold matheron
  have hl := h.length_eq
  have he : l₁.isEmpty = l₂.isEmpty := by
    cases l₁ <;> cases l₂ <;> simp_all
  rw [he, hl, sumR_perm (h.map _)]

theorem median_perm {l₁ l₂ : List Rat} (h : l₁.Perm l₂) : median l₁ = median l₂ := by
  unfold median; rw [sortR_congr h]

theorem dowd_perm {l₁ l₂ : List Rat} (h : l₁.Perm l₂) : dowd l₁ = dowd l₂ := by
  unfold dowd; rw [median_perm h]

theorem absR_comm (a b : Rat) : absR (a - b) = absR (b - a) := by
  unfold absR
  split_ifs <;> linarith

theorem allAbsDiffs_perm {l₁ l₂ : List Rat} (h : l₁.Perm l₂) :
    (allAbsDiffs l₁).Perm (allAbsDiffs l₂) := by
  induction h with
  | nil => exact List.Perm.refl _
  | cons x _ ih =>
    simp only [allAbsDiffs]
    exact List.Perm.append (List.Perm.map _ ‹_›) ih
  | swap x y l =>
    simp only [allAbsDiffs, List.map_cons]
    rw [absR_comm y x]
    apply List.Perm.cons
    have e : ∀ a b c : List Rat, List.Perm (a ++ (b ++ c)) (b ++ (a ++ c)) := by
      intro a b c
      rw [← List.append_assoc, ← List.append_assoc]
      exact List.Perm.append_right _ List.perm_append_comm
    exact e _ _ _
  | trans _ _ ih1 ih2 => exact ih1.trans ih2

theorem quantile_perm {l₁ l₂ : List Rat} (h : l₁.Perm l₂) (q : Rat) :
    quantile l₁ q = quantile l₂ q := by
  unfold quantile; rw [sortR_congr h]

theorem genton_perm {l₁ l₂ : List Rat} (h : l₁.Perm l₂) : genton l₁ = genton l₂ := by
  have hq := fun q => quantile_perm (allAbsDiffs_perm h) q
  simp only [genton, h.length_eq, hq]

/-! ## records: (distance, difference) of one point pair -/

def classOf (edges : List Rat) (k : ℕ) (recs : List (Rat × Rat)) : List Rat :=
  (recs.filter (fun p => inClass edges k p.1)).map (·.2)

def expOf {β} (est : List Rat → β) (edges : List Rat) (recs : List (Rat × Rat)) : List β :=
  (List.range edges.length).map fun k => est (classOf edges k recs)

def countOf (edges : List Rat) (recs : List (Rat × Rat)) : List ℕ :=
  (List.range edges.length).map fun k => (classOf edges k recs).length

theorem classOf_perm (edges : List Rat) (k : ℕ) {r₁ r₂ : List (Rat × Rat)} (h : r₁.Perm r₂) :
    (classOf edges k r₁).Perm (classOf edges k r₂) :=
  (h.filter _).map _

theorem expOf_perm {β} (est : List Rat → β) (hest : ∀ l₁ l₂ : List Rat, l₁.Perm l₂ → est l₁ = est l₂)
    (edges : List Rat) {r₁ r₂ : List (Rat × Rat)} (h : r₁.Perm r₂) :
    expOf est edges r₁ = expOf est edges r₂ := by
  unfold expOf
  apply List.map_congr_left
  intro k _
  exact hest _ _ (classOf_perm edges k h)

theorem countOf_perm (edges : List Rat) {r₁ r₂ : List (Rat × Rat)} (h : r₁.Perm r₂) :
    countOf edges r₁ = countOf edges r₂ := by
  unfold countOf
  apply List.map_congr_left
  intro k _
  exact (classOf_perm edges k h).length_eq

/-- the implementation's pipeline (groups → lag classes → estimator) expressed on records -/
theorem experimental_eq_expOf {β} (est : List Rat → β) (edges : List Rat)
    (h : (0 :: edges).Pairwise (· ≤ ·)) (ds xs : List Rat) (hpos : ∀ d ∈ ds, 0 ≤ d) :
    experimental est edges.length (groups edges ds) xs = expOf est edges (ds.zip xs) := by
  unfold experimental lagClasses expOf classOf
  rw [List.map_map]
  apply List.map_congr_left
  intro k hk
  simp only [Function.comp]
  rw [lagClass_spec edges h k (List.mem_range.1 hk) ds xs hpos]

/-! ## maximum -/

theorem maxR_mem_aux : ∀ (l : List Rat) (a : Rat),
    l.foldl (fun a b => if a ≤ b then b else a) a = a ∨
    l.foldl (fun a b => if a ≤ b then b else a) a ∈ l := by
  intro l
  induction l with
  | nil => intro a; left; rfl
  | cons b l ih =>
    intro a
    simp only [List.foldl_cons]
    rcases ih (if a ≤ b then b else a) with h | h
    · rw [h]
      split_ifs
      · right; simp
      · left; rfl
    · right; exact List.mem_cons_of_mem _ h

theorem maxR_mem (l : List Rat) (hne : l ≠ []) : maxR l ∈ l := by
  unfold maxR
  cases l with
  | nil => exact absurd rfl hne
  | cons a l =>
    rcases maxR_mem_aux (a :: l) a with h | h
    · simp only [List.headD_cons]; rw [h]; simp
    · simpa using h

theorem maxR_perm {l₁ l₂ : List Rat} (h : l₁.Perm l₂) : maxR l₁ = maxR l₂ := by
  by_cases hne : l₁ = []
  · subst hne; rw [h.nil_eq]
  · have hne2 : l₂ ≠ [] := fun e => hne (by rw [e] at h; exact h.eq_nil)
    apply le_antisymm
    · exact le_maxR l₂ _ (h.mem_iff.1 (maxR_mem l₁ hne))
    · exact le_maxR l₁ _ (h.mem_iff.2 (maxR_mem l₂ hne2))

theorem effMax_perm (m : Option Rat) {l₁ l₂ : List Rat} (h : l₁.Perm l₂) :
    effMax m l₁ = effMax m l₂ := by
  unfold effMax; rw [maxR_perm h]

theorem uniformEdges_perm (n : ℕ) (m : Rat) {l₁ l₂ : List Rat} (h : l₁.Perm l₂) :
    uniformEdges n m l₁ = uniformEdges n m l₂ := by
  unfold uniformEdges; rw [sortR_congr (h.filter _)]

end Skg
