import SkgVerif.Model.Binning
import Mathlib.Tactic
import Mathlib.Data.List.Sort
import Mathlib.Data.Rat.Floor
import Mathlib.Algebra.Order.Floor.Ring
import Mathlib.Algebra.Order.Floor.Semiring

namespace Skg

/-! ## sorting -/

theorem insR_eq (a : Rat) (l : List Rat) : insR a l = l.orderedInsert (· ≤ ·) a := by
  induction l with
  | nil => rfl
  | cons b l ih => simp only [insR, List.orderedInsert_cons, ih]

theorem sortR_eq (l : List Rat) : sortR l = l.insertionSort (· ≤ ·) := by
  induction l with
  | nil => rfl
  | cons b l ih => simp only [sortR, List.insertionSort_cons, ih, insR_eq]

theorem sortR_pairwise (l : List Rat) : (sortR l).Pairwise (· ≤ ·) := by
  rw [sortR_eq]; exact List.pairwise_insertionSort _ l

theorem sortR_perm (l : List Rat) : (sortR l).Perm l := by
  rw [sortR_eq]; exact List.perm_insertionSort _ l

theorem sortR_length (l : List Rat) : (sortR l).length = l.length := (sortR_perm l).length_eq

theorem mem_sortR (l : List Rat) (x : Rat) : x ∈ sortR l ↔ x ∈ l := (sortR_perm l).mem_iff

/-- sorting only depends on the multiset of entries -/
theorem sortR_congr {l₁ l₂ : List Rat} (h : l₁.Perm l₂) : sortR l₁ = sortR l₂ := by
  apply List.Perm.eq_of_pairwise (le := (· ≤ ·))
  · intro a b _ _ hab hba; exact le_antisymm hab hba
  · exact sortR_pairwise l₁
  · exact sortR_pairwise l₂
  · exact (sortR_perm l₁).trans (h.trans (sortR_perm l₂).symm)

/-! ## linear interpolation through a monotone node sequence -/

/-- linear interpolation through the nodes `s 0, s 1, …` at virtual index `p ≥ 0` -/
def lerpAt (s : ℕ → Rat) (p : Rat) : Rat :=
  s ⌊p⌋₊ + (p - (⌊p⌋₊ : Rat)) * (s (⌊p⌋₊ + 1) - s ⌊p⌋₊)

theorem lerpAt_ge (s : ℕ → Rat) (hs : Monotone s) (p : Rat) (hp : 0 ≤ p) : s ⌊p⌋₊ ≤ lerpAt s p := by
  unfold lerpAt
  have h1 : ((⌊p⌋₊ : ℕ) : Rat) ≤ p := Nat.floor_le hp
  have h2 : s ⌊p⌋₊ ≤ s (⌊p⌋₊ + 1) := hs (Nat.le_succ _)
  nlinarith [mul_nonneg (sub_nonneg.2 h1) (sub_nonneg.2 h2)]

theorem lerpAt_le (s : ℕ → Rat) (hs : Monotone s) (p : Rat) (hp : 0 ≤ p) :
    lerpAt s p ≤ s (⌊p⌋₊ + 1) := by
  unfold lerpAt
  have h1 : p < ((⌊p⌋₊ : ℕ) : Rat) + 1 := Nat.lt_floor_add_one p
  have h0 : ((⌊p⌋₊ : ℕ) : Rat) ≤ p := Nat.floor_le hp
  have h2 : s ⌊p⌋₊ ≤ s (⌊p⌋₊ + 1) := hs (Nat.le_succ _)
  nlinarith [mul_nonneg (sub_nonneg.2 h2) (sub_nonneg.2 h1.le)]

theorem lerpAt_mono (s : ℕ → Rat) (hs : Monotone s) {p q : Rat} (hp : 0 ≤ p) (hpq : p ≤ q) :
    lerpAt s p ≤ lerpAt s q := by
  have hq : 0 ≤ q := hp.trans hpq
  rcases (Nat.floor_mono hpq).eq_or_lt with h | h
  · unfold lerpAt
    rw [← h]
    have h2 : s ⌊p⌋₊ ≤ s (⌊p⌋₊ + 1) := hs (Nat.le_succ _)
    nlinarith [mul_nonneg (sub_nonneg.2 hpq) (sub_nonneg.2 h2)]
  · calc lerpAt s p ≤ s (⌊p⌋₊ + 1) := lerpAt_le s hs p hp
      _ ≤ s ⌊q⌋₊ := hs h
      _ ≤ lerpAt s q := lerpAt_ge s hs q hq

/-- homogeneity: scaling the nodes scales the interpolant -/
theorem lerpAt_scale (s : ℕ → Rat) (c p : Rat) :
    lerpAt (fun i => c * s i) p = c * lerpAt s p := by
  unfold lerpAt; ring

theorem getD_eq_getElem' (s : List Rat) (i : ℕ) (hi : i < s.length) : s.getD i 0 = s[i] := by
  rw [List.getD_eq_getElem?_getD, List.getElem?_eq_getElem hi]; rfl

/-! ## the quantile of a sorted list -/

/-- clamped node sequence of a list -/
def nodes (s : List Rat) : ℕ → Rat := fun i => s.getD (min i (s.length - 1)) 0

theorem quantileSorted_eq (s : List Rat) (q : Rat) :
    quantileSorted s q = lerpAt (nodes s) (q * ((s.length : Rat) - 1)) := by
  unfold quantileSorted lerpAt nodes
  have e : ∀ x : Rat, x.floor.toNat = ⌊x⌋₊ := fun x => Int.floor_toNat x
  simp only [e]

theorem nodes_mono (s : List Rat) (h : s.Pairwise (· ≤ ·)) : Monotone (nodes s) := by
  intro i j hij
  unfold nodes
  by_cases hs : s.length = 0
  · have : s = [] := List.eq_nil_of_length_eq_zero hs
    subst this; simp
  have hi : min i (s.length - 1) < s.length := by omega
  have hj : min j (s.length - 1) < s.length := by omega
  rw [getD_eq_getElem' _ _ hi, getD_eq_getElem' _ _ hj]
  rcases Nat.eq_or_lt_of_le (show min i (s.length - 1) ≤ min j (s.length - 1) by omega) with e | l
  · simp [e]
  · exact (List.pairwise_iff_getElem.1 h) _ _ hi hj l

theorem quantileSorted_mono (s : List Rat) (h : s.Pairwise (· ≤ ·)) (hne : s ≠ [])
    {q₁ q₂ : Rat} (h0 : 0 ≤ q₁) (h12 : q₁ ≤ q₂) :
    quantileSorted s q₁ ≤ quantileSorted s q₂ := by
  rw [quantileSorted_eq, quantileSorted_eq]
  have hn : (0 : Rat) ≤ (s.length : Rat) - 1 := by
    have : 1 ≤ s.length := List.length_pos_iff.2 hne
    have : (1 : Rat) ≤ (s.length : Rat) := by exact_mod_cast this
    linarith
  exact lerpAt_mono _ (nodes_mono s h) (mul_nonneg h0 hn) (mul_le_mul_of_nonneg_right h12 hn)

theorem nodes_le_last (s : List Rat) (h : s.Pairwise (· ≤ ·)) (i : ℕ) :
    nodes s i ≤ nodes s (s.length - 1) := by
  by_cases hi : i ≤ s.length - 1
  · exact nodes_mono s h hi
  · have : nodes s i = nodes s (s.length - 1) := by
      unfold nodes; congr 1; omega
    rw [this]

theorem quantileSorted_bounds (s : List Rat) (h : s.Pairwise (· ≤ ·)) (hne : s ≠ [])
    {q : Rat} (h0 : 0 ≤ q) :
    nodes s 0 ≤ quantileSorted s q ∧ quantileSorted s q ≤ nodes s (s.length - 1) := by
  rw [quantileSorted_eq]
  have hn : (0 : Rat) ≤ (s.length : Rat) - 1 := by
    have : 1 ≤ s.length := List.length_pos_iff.2 hne
    have : (1 : Rat) ≤ (s.length : Rat) := by exact_mod_cast this
    linarith
  have hp := mul_nonneg h0 hn
  constructor
  · exact le_trans (nodes_mono s h (Nat.zero_le _)) (lerpAt_ge _ (nodes_mono s h) _ hp)
  · exact le_trans (lerpAt_le _ (nodes_mono s h) _ hp) (nodes_le_last s h _)

/-- at `q = 1` the quantile is the largest element -/
theorem quantileSorted_one (s : List Rat) (hne : s ≠ []) :
    quantileSorted s 1 = nodes s (s.length - 1) := by
  rw [quantileSorted_eq]
  have h1 : 1 ≤ s.length := List.length_pos_iff.2 hne
  have e : (1 : Rat) * ((s.length : Rat) - 1) = ((s.length - 1 : ℕ) : Rat) := by
    rw [Nat.cast_sub h1]; simp
  rw [e]
  unfold lerpAt
  simp [Nat.floor_natCast]

/-- every node is an element of the list -/
theorem nodes_mem (s : List Rat) (hne : s ≠ []) (i : ℕ) : nodes s i ∈ s := by
  unfold nodes
  have h1 : 1 ≤ s.length := List.length_pos_iff.2 hne
  have hi : min i (s.length - 1) < s.length := by omega
  rw [getD_eq_getElem' _ _ hi]
  exact List.getElem_mem hi

end Skg
