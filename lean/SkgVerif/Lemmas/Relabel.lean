import SkgVerif.Lemmas.Pairs
import Mathlib.Data.List.Perm.Basic

namespace Skg

def ordP (p : ℕ × ℕ) : ℕ × ℕ := if p.1 < p.2 then p else (p.2, p.1)

/-- a relabelling of the points `0..n-1` with explicit inverse -/
structure Relabel (n : ℕ) where
  σ : ℕ → ℕ
  τ : ℕ → ℕ
  hσ : ∀ i, i < n → σ i < n
  hτ : ∀ i, i < n → τ i < n
  hτσ : ∀ i, i < n → τ (σ i) = i
  hστ : ∀ i, i < n → σ (τ i) = i

theorem Relabel.inj {n} (r : Relabel n) {i j : ℕ} (hi : i < n) (hj : j < n) (h : r.σ i = r.σ j) :
    i = j := by
  have := congrArg r.τ h
  rwa [r.hτσ i hi, r.hτσ j hj] at this

theorem Relabel.inj' {n} (r : Relabel n) {i j : ℕ} (hi : i < n) (hj : j < n) (h : r.τ i = r.τ j) :
    i = j := by
  have := congrArg r.σ h
  rwa [r.hστ i hi, r.hστ j hj] at this

theorem pairs_relabel {n} (r : Relabel n) :
    ((pairs n).map fun p => ordP (r.σ p.1, r.σ p.2)).Perm (pairs n) := by
  rw [List.perm_ext_iff_of_nodup _ (nodup_pairs n)]
  · intro q
    simp only [List.mem_map, mem_pairs]
    constructor
    · rintro ⟨p, ⟨hp1, hp2⟩, rfl⟩
      have h1 : p.1 < n := by omega
      have hne : r.σ p.1 ≠ r.σ p.2 := fun h => by have := r.inj h1 hp2 h; omega
      have a := r.hσ p.1 h1
      have b := r.hσ p.2 hp2
      unfold ordP; simp only
      split_ifs with h <;> simp <;> omega
    · rintro ⟨hq1, hq2⟩
      have h1 : q.1 < n := by omega
      have hne : r.τ q.1 ≠ r.τ q.2 := fun h => by have := r.inj' h1 hq2 h; omega
      have a := r.hτ q.1 h1
      have b := r.hτ q.2 hq2
      refine ⟨ordP (r.τ q.1, r.τ q.2), ?_, ?_⟩
      · unfold ordP; simp only; split_ifs with h <;> simp <;> omega
      · unfold ordP; simp only
        split_ifs with h h' h'
        · simp only [r.hστ q.1 h1, r.hστ q.2 hq2]
        · simp only [r.hστ q.1 h1, r.hστ q.2 hq2] at h'; omega
        · simp only [r.hστ q.1 h1, r.hστ q.2 hq2] at h'; omega
        · simp only [r.hστ q.1 h1, r.hστ q.2 hq2]
  · apply List.Nodup.map_on _ (nodup_pairs n)
    intro p hp q hq h
    rw [mem_pairs] at hp hq
    have p1 : p.1 < n := by omega
    have q1 : q.1 < n := by omega
    have hnp : r.σ p.1 ≠ r.σ p.2 := fun h => by have := r.inj p1 hp.2 h; omega
    have hnq : r.σ q.1 ≠ r.σ q.2 := fun h => by have := r.inj q1 hq.2 h; omega
    unfold ordP at h; simp only at h
    split_ifs at h with h1 h2 h2
    · have := Prod.mk.inj h
      exact Prod.ext (r.inj p1 q1 this.1) (r.inj hp.2 hq.2 this.2)
    · have := Prod.mk.inj h
      have e1 := r.inj p1 hq.2 this.1; have e2 := r.inj hp.2 q1 this.2
      omega
    · have := Prod.mk.inj h
      have e1 := r.inj hp.2 q1 this.1; have e2 := r.inj p1 hq.2 this.2
      omega
    · have := Prod.mk.inj h
      exact Prod.ext (r.inj p1 q1 this.2) (r.inj hp.2 hq.2 this.1)

/-- for a symmetric pair function the per-pair list of the relabelled points is a permutation of
the original per-pair list -/
theorem pairs_map_relabel {β} {n} (r : Relabel n) (F : ℕ → ℕ → β) (hF : ∀ i j, F i j = F j i) :
    ((pairs n).map fun p => F (r.σ p.1) (r.σ p.2)).Perm ((pairs n).map fun p => F p.1 p.2) := by
  have e : ((pairs n).map fun p => F (r.σ p.1) (r.σ p.2)) =
      ((pairs n).map fun p => ordP (r.σ p.1, r.σ p.2)).map (fun p => F p.1 p.2) := by
    rw [List.map_map]
    apply List.map_congr_left
    intro p _
    simp only [Function.comp, ordP]
    split_ifs
    · rfl
    · exact hF _ _
  rw [e]
  exact (pairs_relabel r).map _

end Skg
