import SkgVerif.Lemmas.PermInv

namespace Skg

theorem absR_eq_abs (x : Rat) : absR x = |x| := by
  unfold absR
  split_ifs with h
  · exact (abs_of_neg h).symm
  · exact (abs_of_nonneg (not_lt.1 h)).symm

theorem absR_mul (c x : Rat) : absR (c * x) = absR c * absR x := by
  simp only [absR_eq_abs, abs_mul]

theorem absR_nonneg (x : Rat) : 0 ≤ absR x := by rw [absR_eq_abs]; exact abs_nonneg x

theorem getD_map_zero (f : Rat → Rat) (hf : f 0 = 0) (l : List Rat) (i : ℕ) :
    (l.map f).getD i 0 = f (l.getD i 0) := by
  rw [List.getD_eq_getElem?_getD, List.getD_eq_getElem?_getD, List.getElem?_map]
  cases l[i]? <;> simp [hf]

/-! ## values: shift and scale -/

theorem pairDiffs_shift (v : List Rat) (c : Rat) : pairDiffs (v.map (· + c)) = pairDiffs v := by
  unfold pairDiffs
  simp only [List.length_map]
  apply List.map_congr_left
  intro p hp
  rw [mem_pairs] at hp
  have h1 : p.1 < v.length := by omega
  have e1 : (v.map (· + c)).getD p.1 0 = v.getD p.1 0 + c := by
    rw [List.getD_eq_getElem?_getD, List.getD_eq_getElem?_getD]
    simp [List.getElem?_eq_getElem h1]
  have e2 : (v.map (· + c)).getD p.2 0 = v.getD p.2 0 + c := by
    rw [List.getD_eq_getElem?_getD, List.getD_eq_getElem?_getD]
    simp [List.getElem?_eq_getElem hp.2]
  rw [e1, e2]; congr 1; ring

theorem pairDiffs_scale (v : List Rat) (k : Rat) :
    pairDiffs (v.map (k * ·)) = (pairDiffs v).map (absR k * ·) := by
  unfold pairDiffs
  simp only [List.length_map, List.map_map]
  apply List.map_congr_left
  intro p _
  simp only [Function.comp]
  rw [getD_map_zero (k * ·) (by simp), getD_map_zero (k * ·) (by simp), ← mul_sub, absR_mul]

theorem matheron_scale (c : Rat) (xs : List Rat) :
    matheron (xs.map (c * ·)) = (matheron xs).map (c * c * ·) := by
  unfold matheron
  cases xs with
  | nil => simp
  | cons x xs =>
    simp only [List.isEmpty_cons, List.map_cons, Bool.false_eq_true, if_false, Option.map_some,
      List.length_cons, List.length_map]
    congr 1
    rw [sumR_eq_sum, sumR_eq_sum]
    simp only [List.map_cons, List.sum_cons, List.map_map, Function.comp]
    have : (xs.map ((fun x => x * x) ∘ fun x => c * x)).sum = c * c * (xs.map fun x => x * x).sum := by
      rw [← List.sum_map_mul_left]
      congr 1; apply List.map_congr_left; intro a _; simp only [Function.comp]; ring
    rw [this]; ring

theorem sortR_scale (c : Rat) (hc : 0 ≤ c) (xs : List Rat) :
    sortR (xs.map (c * ·)) = (sortR xs).map (c * ·) := by
  apply List.Perm.eq_of_pairwise (le := (· ≤ ·))
  · intro a b _ _ hab hba; exact le_antisymm hab hba
  · exact sortR_pairwise _
  · rw [List.pairwise_map]
    exact (sortR_pairwise xs).imp (fun h => mul_le_mul_of_nonneg_left h hc)
  · exact (sortR_perm _).trans ((sortR_perm xs).map _).symm

theorem median_scale (c : Rat) (hc : 0 ≤ c) (xs : List Rat) :
    median (xs.map (c * ·)) = (median xs).map (c * ·) := by
  unfold median
  simp only [sortR_scale c hc, List.length_map]
  split_ifs
  · rfl
  · simp only [Option.map_some]; rw [getD_map_zero (c * ·) (by simp)]
  · simp only [Option.map_some]
    rw [getD_map_zero (c * ·) (by simp), getD_map_zero (c * ·) (by simp)]; congr 1; ring

theorem dowd_scale (c : Rat) (hc : 0 ≤ c) (xs : List Rat) :
    dowd (xs.map (c * ·)) = (dowd xs).map (c * c * ·) := by
  unfold dowd
  rw [median_scale c hc]
  cases median xs with
  | none => rfl
  | some m => simp only [Option.map_some]; congr 1; ring

theorem nodes_scale (c : Rat) (s : List Rat) (i : ℕ) : nodes (s.map (c * ·)) i = c * nodes s i := by
  unfold nodes
  simp only [List.length_map]
  exact getD_map_zero (c * ·) (by simp) _ _

theorem quantileSorted_scale (c : Rat) (s : List Rat) (q : Rat) :
    quantileSorted (s.map (c * ·)) q = c * quantileSorted s q := by
  rw [quantileSorted_eq, quantileSorted_eq]
  simp only [List.length_map]
  have : nodes (s.map (c * ·)) = fun i => c * nodes s i := funext (nodes_scale c s)
  rw [this, lerpAt_scale]

theorem quantile_scale (c : Rat) (hc : 0 ≤ c) (xs : List Rat) (q : Rat) :
    quantile (xs.map (c * ·)) q = c * quantile xs q := by
  unfold quantile; rw [sortR_scale c hc, quantileSorted_scale]

theorem allAbsDiffs_scale (c : Rat) (hc : 0 ≤ c) : ∀ xs : List Rat,
    allAbsDiffs (xs.map (c * ·)) = (allAbsDiffs xs).map (c * ·) := by
  intro xs
  induction xs with
  | nil => rfl
  | cons x xs ih =>
    simp only [List.map_cons, allAbsDiffs, List.map_append, List.map_map, ih]
    congr 1
    apply List.map_congr_left
    intro y _
    simp only [Function.comp]
    rw [← mul_sub, absR_mul]
    congr 1
    unfold absR; simp [not_lt.2 hc]

theorem genton_scale (c : Rat) (hc : 0 ≤ c) (xs : List Rat) :
    genton (xs.map (c * ·)) = (genton xs).map (c * c * ·) := by
  simp only [genton, List.length_map, allAbsDiffs_scale c hc, quantile_scale c hc]
  split_ifs
  · rfl
  · simp only [Option.map_some]; congr 1; ring
  · simp only [Option.map_some]; congr 1; ring

/-! ## coordinates: scale -/

theorem groupAux_scale (s : Rat) (hs : 0 < s) (d : Rat) : ∀ (l : List (Rat × Rat)) (i : ℕ) (g : ℤ),
    groupAux (s * d) (l.map fun p => (s * p.1, s * p.2)) i g = groupAux d l i g := by
  intro l
  induction l with
  | nil => intro i g; rfl
  | cons p l ih =>
    intro i g
    obtain ⟨lo, hi⟩ := p
    simp only [List.map_cons, groupAux]
    have e : (s * lo ≤ s * d ∧ s * d < s * hi) ↔ (lo ≤ d ∧ d < hi) := by
      rw [mul_le_mul_iff_right₀ hs, mul_lt_mul_iff_right₀ hs]
    simp only [e]
    exact ih _ _

theorem groupLoop_scale (s : Rat) (hs : 0 < s) (edges : List Rat) (d : Rat) :
    groupLoop (edges.map (s * ·)) (s * d) = groupLoop edges d := by
  unfold groupLoop intervals
  have : List.zip (0 :: edges.map (s * ·)) (edges.map (s * ·)) =
      (List.zip (0 :: edges) edges).map fun p => (s * p.1, s * p.2) := by
    have h0 : (0 : Rat) :: edges.map (s * ·) = (0 :: edges).map (s * ·) := by simp
    rw [h0, List.zip_map]
    apply List.map_congr_left
    intro p _; rfl
  rw [this]
  exact groupAux_scale s hs d _ _ _

theorem evenEdges_scale (n : ℕ) (s m : Rat) : evenEdges n (s * m) = (evenEdges n m).map (s * ·) := by
  unfold evenEdges
  rw [List.map_map]
  apply List.map_congr_left
  intro i _
  simp only [Function.comp]; ring

theorem maxR_scale (s : Rat) (hs : 0 ≤ s) (l : List Rat) : maxR (l.map (s * ·)) = s * maxR l := by
  by_cases hne : l = []
  · subst hne; simp [maxR]
  · have hne' : l.map (s * ·) ≠ [] := by simpa using hne
    apply le_antisymm
    · obtain ⟨x, hx, hxe⟩ := List.mem_map.1 (maxR_mem _ hne')
      rw [← hxe]
      exact mul_le_mul_of_nonneg_left (le_maxR l x hx) hs
    · exact le_maxR _ _ (List.mem_map.2 ⟨_, maxR_mem l hne, rfl⟩)

theorem uniformEdges_scale (n : ℕ) (s : Rat) (hs : 0 < s) (m : Rat) (ds : List Rat) :
    uniformEdges n (s * m) (ds.map (s * ·)) = (uniformEdges n m ds).map (s * ·) := by
  unfold uniformEdges
  have hf : (ds.map (s * ·)).filter (· ≤ s * m) = (ds.filter (· ≤ m)).map (s * ·) := by
    rw [List.filter_map]
    congr 1
    apply List.filter_congr
    intro x _
    simp only [Function.comp, decide_eq_decide]
    exact mul_le_mul_iff_right₀ hs
  simp only [hf, sortR_scale s hs.le, List.map_map]
  apply List.map_congr_left
  intro i _
  simp only [Function.comp]
  exact quantileSorted_scale s _ _

end Skg
