import SkgVerif.Model.SpaceTime
import SkgVerif.Lemmas.Grouping

namespace Skg

theorem groupAuxOC_lt (d : Rat) : ∀ (l : List (Rat × Rat)) (lo0 : Rat) (i : Nat) (g : Int),
    Chained lo0 l → d ≤ lo0 → groupAuxOC d l i g = g := by
  intro l
  induction l with
  | nil => intros; rfl
  | cons p rest ih =>
    intro lo0 i g hc hd
    obtain ⟨lo, hi⟩ := p
    obtain ⟨h1, h2, h3⟩ := hc
    subst h1
    simp only [groupAuxOC]
    have : ¬ (lo < d ∧ d ≤ hi) := fun h => absurd h.1 (not_lt.2 hd)
    rw [if_neg this]
    exact ih hi (i+1) g h3 (le_trans hd h2)

/-- open-closed loop spec: for chained intervals starting at `lo0 < d`, the result is the index
of the unique interval `(lo, hi]` containing `d`, or the incoming `g` if `d` is beyond the last
edge -/
theorem groupAuxOC_spec (d : Rat) : ∀ (l : List (Rat × Rat)) (lo0 : Rat) (i : Nat) (g : Int),
    Chained lo0 l → lo0 < d →
    (∃ k, ∃ _h : k < l.length, (l[k]).1 < d ∧ d ≤ (l[k]).2 ∧ groupAuxOC d l i g = ((i + k : Nat) : Int)) ∨
    ((∀ p ∈ l, p.2 < d) ∧ groupAuxOC d l i g = g) := by
  intro l
  induction l with
  | nil => intro lo0 i g _ _; right; exact ⟨by simp, rfl⟩
  | cons p rest ih =>
    intro lo0 i g hc hd
    obtain ⟨lo, hi⟩ := p
    obtain ⟨h1, h2, h3⟩ := hc
    subst h1
    simp only [groupAuxOC]
    by_cases hhi : d ≤ hi
    · left
      refine ⟨0, by simp, hd, hhi, ?_⟩
      rw [if_pos ⟨hd, hhi⟩]
      simpa using groupAuxOC_lt d rest hi (i+1) (i:Int) h3 hhi
    · have hlt : hi < d := not_le.1 hhi
      rw [if_neg (fun h => hhi h.2)]
      rcases ih hi (i+1) g h3 hlt with ⟨k, hk, ha, hb, hc⟩ | ⟨hall, hg⟩
      · left
        refine ⟨k+1, by simpa using hk, by simpa using ha, by simpa using hb, ?_⟩
        rw [hc]; push_cast; ring
      · right
        refine ⟨?_, hg⟩
        intro p hp
        rcases List.mem_cons.1 hp with rfl | hp
        · exact hlt
        · exact hall p hp

/-- a space-major double loop is the flat table indexed by `k = i·nt + j` -/
theorem flatMap_range_eq {β} (f : ℕ → ℕ → β) (nt : ℕ) (hnt : 0 < nt) : ∀ nx : ℕ,
    ((List.range nx).flatMap fun i => (List.range nt).map fun j => f i j) =
      (List.range (nx * nt)).map fun k => f (k / nt) (k % nt) := by
  intro nx
  induction nx with
  | zero => simp
  | succ n ih =>
    rw [List.range_succ, List.flatMap_append, ih]
    simp only [List.flatMap_cons, List.flatMap_nil, List.append_nil]
    have : (n + 1) * nt = n * nt + nt := by ring
    rw [this, List.range_add, List.map_append, List.map_map]
    congr 1
    apply List.map_congr_left
    intro j hj
    have hj' := List.mem_range.1 hj
    simp only [Function.comp]
    have h1 : (n * nt + j) / nt = n := by
      rw [Nat.add_comm, Nat.add_mul_div_right _ _ hnt, Nat.div_eq_of_lt hj']; simp
    have h2 : (n * nt + j) % nt = j := by
      rw [Nat.add_comm, Nat.add_mul_mod_self_right, Nat.mod_eq_of_lt hj']
    rw [h1, h2]

end Skg
