import SkgVerif.Model.SpaceTime
import SkgVerif.Lemmas.Grouping

namespace Skg

theorem groupAuxOC_lt (d : Rat) : ∀ (l : List (Rat × Rat)) (lo0 : Rat) (i : Nat) (g : Int),
    Chained lo0 l → d ≤ lo0 → groupAuxOC d l i g = g := by
  intro l
  induction l with
  | nil => intros; rfl
  | cons p rest ih =>
    intro lo0 i g hc hd
    obtain ⟨lo, hi⟩ := p
    obtain ⟨h1, h2, h3⟩ := hc
    subst h1
    simp only [groupAuxOC]
    have : ¬ (lo < d ∧ d ≤ hi) := fun h => absurd h.1 (not_lt.2 hd)
    rw [if_neg this]
    exact ih hi (i+1) g h3 (le_trans hd h2)

/-- open-closed loop spec: for chained intervals starting at `lo0 < d`, the result is the index
of the unique interval `(lo, hi]` containing `d`, or the incoming `g` if `d` is beyond the last
edge -/
theorem groupAuxOC_spec (d : Rat) : ∀ (l : List (Rat × Rat)) (lo0 : Rat) (i : Nat) (g : Int),
    Chained lo0 l → lo0 < d →
    (∃ k, ∃ _h : k < l.length, (l[k]).1 < d ∧ d ≤ (l[k]).2 ∧ groupAuxOC d l i g = ((i + k : Nat) : Int)) ∨
    ((∀ p ∈ l, p.2 < d) ∧ groupAuxOC d l i g = g) := by
  intro l
  induction l with
  | nil => intro lo0 i g _ _; right; exact ⟨by simp, rfl⟩
  | cons p rest ih =>
    intro lo0 i g hc hd
    obtain ⟨lo, hi⟩ := p
    obtain ⟨h1, h2, h3⟩ := hc
    subst h1
    simp only [groupAuxOC]
    by_cases hhi : d ≤ hi
    · left
      refine ⟨0, by simp, hd, hhi, ?_⟩
      rw [if_pos ⟨hd, hhi⟩]
      simpa using groupAuxOC_lt d rest hi (i+1) (i:Int) h3 hhi
    · have hlt : hi < d := not_le.1 hhi
      rw [if_neg (fun h => hhi h.2)]
      rcases ih hi (i+1) g h3 hlt with ⟨k, hk, ha, hb, hc⟩ | ⟨hall, hg⟩
      · left
        refine ⟨k+1, by simpa using hk, by simpa using ha, by simpa using hb, ?_⟩
        rw [hc]; push_cast; ring
      · right
        refine ⟨?_, hg⟩
        intro p hp
        rcases List.mem_cons.1 hp with rfl | hp
        · exact hlt
        · exact hall p hp

/-- membership predicate of an open-closed lag class `k`: `edge[k-1] < d ≤ edge[k]` -/
def inClassOC (edges : List Rat) (k : Nat) (d : Rat) : Bool :=
  decide ((0 :: edges).getD k 0 < d ∧ d ≤ edges.getD k 0)

/-- in a non-decreasing chain the open-closed interval containing `d` is unique -/
theorem intervalOC_unique (es : List Rat) (h : (0 :: es).Pairwise (· ≤ ·)) (d : Rat)
    (k k' : Nat) (hk : k < es.length) (hk' : k' < es.length)
    (h1 : (0 :: es)[k]'(by simp; omega) < d ∧ d ≤ es[k])
    (h2 : (0 :: es)[k']'(by simp; omega) < d ∧ d ≤ es[k']) : k = k' := by
  rw [List.pairwise_iff_getElem] at h
  by_contra hne
  rcases Nat.lt_or_gt_of_ne hne with hlt | hlt
  · have : (0 :: es)[k+1]'(by simp; omega) ≤ (0 :: es)[k']'(by simp; omega) := by
      rcases Nat.eq_or_lt_of_le (Nat.succ_le_of_lt hlt) with e | l
      · simp only [Nat.succ_eq_add_one] at e; simp [e]
      · exact h (k+1) k' (by simp; omega) (by simp; omega) l
    have e : (0 :: es)[k+1]'(by simp; omega) = es[k] := by simp
    rw [e] at this
    exact absurd (lt_of_le_of_lt (le_trans h1.2 this) h2.1) (lt_irrefl _)
  · have : (0 :: es)[k'+1]'(by simp; omega) ≤ (0 :: es)[k]'(by simp; omega) := by
      rcases Nat.eq_or_lt_of_le (Nat.succ_le_of_lt hlt) with e | l
      · simp only [Nat.succ_eq_add_one] at e; simp [e]
      · exact h (k'+1) k (by simp; omega) (by simp; omega) l
    have e : (0 :: es)[k'+1]'(by simp; omega) = es[k'] := by simp
    rw [e] at this
    exact absurd (lt_of_le_of_lt (le_trans h2.2 this) h1.1) (lt_irrefl _)

/-- the open-closed loop on edges: class index or −1 -/
theorem groupLoopOC_cases (es : List Rat) (h : (0 :: es).Pairwise (· ≤ ·)) (d : Rat) (hd : 0 < d) :
    (∃ k, ∃ hk : k < es.length, (0 :: es)[k]'(by simp; omega) < d ∧ d ≤ es[k] ∧
        groupLoopOC es d = (k : Int)) ∨
    ((∀ e ∈ es, e < d) ∧ groupLoopOC es d = -1) := by
  have hc := chained_intervals es 0 (mono_of_pairwise es 0 h)
  rcases groupAuxOC_spec d (intervals es) 0 0 (-1) hc hd with ⟨k, hk, ha, hb, hg⟩ | ⟨hall, hg⟩
  · left
    have hk' : k < es.length := by simpa [intervals] using hk
    refine ⟨k, hk', ?_, ?_, ?_⟩
    · have := intervals_get es k hk'; rw [this] at ha; exact ha
    · have := intervals_get es k hk'; rw [this] at hb; exact hb
    · unfold groupLoopOC; rw [hg]; simp
  · right
    refine ⟨?_, hg⟩
    intro e he
    obtain ⟨k, hk, rfl⟩ := List.getElem_of_mem he
    have hm : (intervals es)[k]'(by simpa [intervals] using hk) ∈ intervals es := List.getElem_mem _
    have := hall _ hm
    rw [intervals_get es k hk] at this
    exact this

/-- a distance 0 (co-located stations, identical time steps) belongs to no open-closed class -/
theorem groupLoopOC_zero (es : List Rat) (h : (0 :: es).Pairwise (· ≤ ·)) :
    groupLoopOC es 0 = -1 := by
  have hc := chained_intervals es 0 (mono_of_pairwise es 0 h)
  unfold groupLoopOC
  exact groupAuxOC_lt 0 (intervals es) 0 0 (-1) hc (le_refl 0)

theorem groupLoopOC_eq_iff_inClassOC (edges : List Rat) (h : (0 :: edges).Pairwise (· ≤ ·)) (d : Rat)
    (hd : 0 ≤ d) (k : Nat) (hk : k < edges.length) :
    (groupLoopOC edges d == (k : Int)) = inClassOC edges k d := by
  have hk1 : k < (0 :: edges).length := by simp; omega
  have e1 : (0 :: edges).getD k 0 = (0 :: edges)[k] := by
    rw [List.getD_eq_getElem?_getD, List.getElem?_eq_getElem hk1]; rfl
  have e2 : edges.getD k 0 = edges[k] := by
    rw [List.getD_eq_getElem?_getD, List.getElem?_eq_getElem hk]; rfl
  unfold inClassOC
  rw [e1, e2]
  rcases eq_or_lt_of_le hd with h0 | hpos
  · -- d = 0: no class; and `lo < 0` is impossible since every lower edge is ≥ 0
    subst h0
    have hlo : (0 : Rat) ≤ (0 :: edges)[k] := by
      rcases Nat.eq_zero_or_pos k with rfl | hkpos
      · simp
      · have := (List.pairwise_cons.1 h).1 ((0 :: edges)[k]) (by
          have : (0 :: edges)[k] = edges[k - 1]'(by omega) := by
            cases k with
            | zero => omega
            | succ j => simp
          rw [this]; exact List.getElem_mem _)
        exact this
    rw [groupLoopOC_zero edges h]
    have : ¬ ((0 :: edges)[k] < 0 ∧ (0 : Rat) ≤ edges[k]) := fun hh => absurd hh.1 (not_lt.2 hlo)
    simp [this]
  · have key : groupLoopOC edges d = (k : Int) ↔ ((0 :: edges)[k] < d ∧ d ≤ edges[k]) := by
      constructor
      · intro hg
        rcases groupLoopOC_cases edges h d hpos with ⟨k', hk', ha, hb, hg'⟩ | ⟨_, hg'⟩
        · have : k = k' := by rw [hg] at hg'; exact_mod_cast hg'
          subst this; exact ⟨ha, hb⟩
        · rw [hg] at hg'; omega
      · intro hin
        rcases groupLoopOC_cases edges h d hpos with ⟨k', hk', ha, hb, hg'⟩ | ⟨hall, _⟩
        · have := intervalOC_unique edges h d k k' hk hk' hin ⟨ha, hb⟩
          subst this; exact hg'
        · exact absurd (hall _ (List.getElem_mem hk)) (not_lt.2 hin.2)
    by_cases hin : (0 :: edges)[k] < d ∧ d ≤ edges[k]
    · simp [hin, key.2 hin]
    · have : ¬ groupLoopOC edges d = (k : Int) := fun hg => hin (key.1 hg)
      simp [hin, this]

/-- the members of an open-closed class: exactly the entries whose distance lies in it -/
theorem lagClassOC_spec {α} (edges : List Rat) (h : (0 :: edges).Pairwise (· ≤ ·))
    (k : Nat) (hk : k < edges.length) :
    ∀ (ds : List Rat) (xs : List α), (∀ d ∈ ds, 0 ≤ d) →
    lagClass (groupsOC edges ds) xs k =
      ((ds.zip xs).filter (fun p => inClassOC edges k p.1)).map (·.2) := by
  intro ds
  induction ds with
  | nil => intro xs _; simp [lagClass, groupsOC]
  | cons d ds ih =>
    intro xs hpos
    cases xs with
    | nil => simp [lagClass, groupsOC]
    | cons x xs =>
      have hd : 0 ≤ d := hpos d (by simp)
      have ih' := ih xs (fun d' hd' => hpos d' (by simp [hd']))
      unfold lagClass groupsOC at ih' ⊢
      simp only [List.map_cons, List.zip_cons_cons, List.filter_cons]
      rw [groupLoopOC_eq_iff_inClassOC edges h d hd k hk]
      cases hc : inClassOC edges k d <;> simp [ih']

/-- a space-major double loop is the flat table indexed by `k = i·nt + j` -/
theorem flatMap_range_eq {β} (f : ℕ → ℕ → β) (nt : ℕ) (hnt : 0 < nt) : ∀ nx : ℕ,
    ((List.range nx).flatMap fun i => (List.range nt).map fun j => f i j) =
      (List.range (nx * nt)).map fun k => f (k / nt) (k % nt) := by
  intro nx
  induction nx with
  | zero => simp
  | succ n ih =>
    rw [List.range_succ, List.flatMap_append, ih]
    simp only [List.flatMap_cons, List.flatMap_nil, List.append_nil]
    have : (n + 1) * nt = n * nt + nt := by ring
    rw [this, List.range_add, List.map_append, List.map_map]
    congr 1
    apply List.map_congr_left
    intro j hj
    have hj' := List.mem_range.1 hj
    simp only [Function.comp]
    have h1 : (n * nt + j) / nt = n := by
      rw [Nat.add_comm, Nat.add_mul_div_right _ _ hnt, Nat.div_eq_of_lt hj']; simp
    have h2 : (n * nt + j) % nt = j := by
      rw [Nat.add_comm, Nat.add_mul_mod_self_right, Nat.mod_eq_of_lt hj']
    rw [h1, h2]

end Skg
