import SkgVerif.Model.SumModels
import Mathlib.Tactic
import Mathlib.Data.Real.Basic

namespace Skg

/-- what the components of a '+'-joined model are called with: every component its own
parameters, the last one additionally the single trailing nugget -/
def componentCalls {α β} (b : α) : List (List α → β) → List (List α) → List β
  | [f], [ps] => [f (ps ++ [b])]
  | f :: f' :: fs, ps :: ps' :: pss => f ps :: componentCalls b (f' :: fs) (ps' :: pss)
  | _, _ => []

theorem slice_prefix {α} (pre ps rest : List α) :
    slice (pre ++ ps ++ rest) (pre.length, pre.length + ps.length) = ps := by
  unfold slice
  simp [List.append_assoc]

theorem evalAux_spec {α β} (b : α) : ∀ (pss : List (List α)) (fs : List (List α → β)) (pre : List α),
    fs.length = pss.length →
    ((fs.zip (slicesAux pre.length (pss.map List.length))).map
        fun p => p.1 (slice (pre ++ pss.flatten ++ [b]) p.2)) = componentCalls b fs pss := by
  intro pss
  induction pss with
  | nil => intro fs pre h; cases fs <;> simp [componentCalls, slicesAux] at h ⊢
  | cons ps pss ih =>
    intro fs pre h
    cases fs with
    | nil => simp at h
    | cons f fs =>
      cases pss with
      | nil =>
        cases fs with
        | nil =>
          simp only [List.map_cons, List.map_nil, slicesAux, List.zip_cons_cons, List.zip_nil_right,
            componentCalls, List.flatten_cons, List.flatten_nil, List.append_nil]
          congr 1
          have := slice_prefix pre (ps ++ [b]) ([] : List α)
          simp only [List.append_nil, List.length_append, List.length_singleton] at this
          rw [show pre.length + ps.length + 1 = pre.length + (ps.length + 1) by omega]
          rw [← List.append_assoc] at this
          exact congrArg f this
        | cons _ _ => simp at h
      | cons ps' pss' =>
        cases fs with
        | nil => simp at h
        | cons f' fs' =>
          have ih' := ih (f' :: fs') (pre ++ ps) (by simpa using h)
          simp only [List.map_cons, slicesAux, List.zip_cons_cons, componentCalls, List.flatten_cons]
          congr 1
          · have := slice_prefix pre ps (ps' ++ pss'.flatten ++ [b])
            simp only [List.append_assoc] at this ⊢
            exact congrArg f this
          · simp only [List.length_append, List.map_cons, List.flatten_cons, List.append_assoc] at ih' ⊢
            exact ih'

theorem foldl_add_eq_sum' (l : List ℝ) : l.foldl (· + ·) 0 = l.sum := by
  rw [List.sum_eq_foldl]

/-- sum over the component calls when the last component is nugget-additive -/
theorem componentCalls_sum (b : ℝ) : ∀ (fs : List (List ℝ → ℝ)) (pss : List (List ℝ)),
    fs.length = pss.length → pss ≠ [] →
    (∀ f ∈ fs.getLast?, ∀ ps, f (ps ++ [b]) = f ps + b) →
    (componentCalls b fs pss).sum = (List.zipWith (fun f ps => f ps) fs pss).sum + b := by
  intro fs
  induction fs with
  | nil => intro pss h hne _; cases pss <;> simp at h hne
  | cons f fs ih =>
    intro pss h hne hadd
    cases pss with
    | nil => simp at h
    | cons ps pss =>
      cases fs with
      | nil =>
        cases pss with
        | nil =>
          simp only [componentCalls, List.sum_cons, List.sum_nil, List.zipWith_cons_cons,
            List.zipWith_nil_right, add_zero]
          exact hadd f (by simp) ps
        | cons _ _ => simp at h
      | cons f' fs' =>
        cases pss with
        | nil => simp at h
        | cons ps' pss' =>
          have ih' := ih (ps' :: pss') (by simpa using h) (by simp)
            (by intro g hg; exact hadd g (by simpa using hg))
          simp only [componentCalls, List.sum_cons, List.zipWith_cons_cons] at ih' ⊢
          rw [ih']; ring

end Skg
