/-!
# Wire format and small numeric helpers (core Lean only — no Mathlib)

Every float64 the Python side sees is sent as an exact rational `num/den`
(`float.as_integer_ratio`).  `nan` and `inf` are explicit tokens; the models never
totalise a missing value into `0`.
-/
namespace Skg

def parseRat (s : String) : Option Rat :=
  match s.splitOn "/" with
  | [n] => n.toInt?.map fun i => (i : Rat)
  | [n, d] => do
      let i ← n.toInt?
      let k ← d.toNat?
      if k = 0 then none else some (mkRat i k)
  | _ => none

def tokens (s : String) : List String :=
  (s.splitOn " ").filter (· ≠ "")

def parseRats (s : String) : Option (List Rat) :=
  (tokens s).mapM parseRat

def parseNats (s : String) : Option (List Nat) :=
  (tokens s).mapM String.toNat?

def parseInts (s : String) : Option (List Int) :=
  (tokens s).mapM String.toInt?

/-- `nan` ↦ `none` -/
def parseOptRats (s : String) : Option (List (Option Rat)) :=
  (tokens s).mapM fun t => if t = "nan" then some none else (parseRat t).map some

def fmtRat (r : Rat) : String := s!"{r.num}/{r.den}"

def fmtOptRat : Option Rat → String
  | none => "nan"
  | some r => fmtRat r

def fmtList {α} (f : α → String) (l : List α) : String :=
  " ".intercalate (l.map f)

def absR (r : Rat) : Rat := if r < 0 then -r else r

def sumR (l : List Rat) : Rat := l.foldl (· + ·) 0

def ratToFloat (r : Rat) : Float :=
  Float.ofInt r.num / Float.ofNat r.den

/-- π as the nearest double (`math.pi`) -/
def piF : Float := 3.141592653589793

end Skg
