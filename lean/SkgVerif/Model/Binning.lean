import SkgVerif.Model.Estimators
/-!
# Lag edges: maxlag resolution and the edge constructors (`binning.py`, `Variogram.maxlag`)
-/
namespace Skg

inductive MaxlagReq where
  | none
  | median
  | mean
  | num (v : Rat)
  deriving Repr, DecidableEq

def maxR (l : List Rat) : Rat := l.foldl (fun a b => if a ≤ b then b else a) (l.headD 0)

def meanR (l : List Rat) : Rat := sumR l / (l.length : Rat)

/-- `Variogram.maxlag` setter: None; 'median'/'mean' of the distances; `v < 1` is a ratio of the
largest distance; otherwise absolute -/
def resolveMaxlag (req : MaxlagReq) (ds : List Rat) : Option Rat :=
  match req with
  | .none => none
  | .median => median ds
  | .mean => some (meanR ds)
  | .num v => if v < 1 then some (v * maxR ds) else some v

/-- every binning function first clips: `maxlag is None or maxlag > max d ⇒ maxlag := max d` -/
def effMax (maxlag : Option Rat) (ds : List Rat) : Rat :=
  match maxlag with
  | none => maxR ds
  | some m => if m > maxR ds then maxR ds else m

/-- `np.linspace(0, m, n+1)[1:]` -/
def evenEdges (n : Nat) (m : Rat) : List Rat :=
  (List.range n).map fun (i : Nat) => m * ((i : Rat) + 1) / (n : Rat)

/-- `nanpercentile(d[d <= m], 100·i/n)`, `i = 1..n` -/
def uniformEdges (n : Nat) (m : Rat) (ds : List Rat) : List Rat :=
  let s := sortR (ds.filter (· ≤ m))
  (List.range n).map fun (i : Nat) => quantileSorted s (((i : Rat) + 1) / (n : Rat))

/-- rule-based binnings: `np.histogram_bin_edges(d, bins=rule)[1:]` = the `k` upper edges of `k`
equal-width classes between the smallest and the largest selected distance (`k` is derived by the
NumPy rule and reported as `n_lags`) -/
def linspaceEdges (lo hi : Rat) (k : Nat) : List Rat :=
  (List.range k).map fun (i : Nat) => lo + (hi - lo) * ((i : Rat) + 1) / (k : Rat)

/-- k-means / ward: mid-points of `[0] + sorted centres` -/
def midpointEdges : Rat → List Rat → List Rat
  | _, [] => []
  | lo, c :: cs => (lo + c) / 2 :: midpointEdges c cs

end Skg
