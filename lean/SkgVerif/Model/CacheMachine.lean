import SkgVerif.Model.Basic
/-!
# Lazily cached, setter-invalidated derived values of `Variogram` / `DirectionalVariogram`

Taint-tracking state machine: every filled cache records, per setting, whether its value is
still consistent with the *current* value of that setting.  A setter clears the caches its
invalidation table names and taints the others; a lazy read fills a cache from the settings it
reads directly (fresh) and from other caches (inheriting their taint).
The invalidation table is a parameter: the executable instance uses the table extracted from
the source (`Gen.variogramResets`, `Gen.directionalResets`).
-/
namespace Skg

inductive Setting where
  | values | nLags | maxlag | binFunc | binsDirect | estimator | model | useNugget
  | fitMethod | fitSigma | distFunc | azimuth | tolerance | bandwidth | dirModel
  deriving DecidableEq, Repr

inductive Cache where
  | bins | groups | binCount | diff | cof | mask
  deriving DecidableEq, Repr

open Setting Cache

def Setting.all : List Setting :=
  [values, nLags, maxlag, binFunc, binsDirect, estimator, model, useNugget, fitMethod, fitSigma,
   distFunc, azimuth, tolerance, bandwidth, dirModel]

def Cache.all : List Cache := [bins, groups, binCount, diff, cof, mask]

def directional (s : Setting) : Bool :=
  s == azimuth || s == tolerance || s == bandwidth || s == dirModel

/-- SPEC: the settings a cached value is (transitively) a function of -/
def deps : Cache → Setting → Bool
  | mask, s => directional s
  | bins, s => s == nLags || s == maxlag || s == binFunc || s == binsDirect || s == distFunc || directional s
  | groups, s => s == nLags || s == maxlag || s == binFunc || s == binsDirect || s == distFunc || directional s
  | binCount, s => s == nLags || s == maxlag || s == binFunc || s == binsDirect || s == distFunc || directional s
  | diff, s => s == values || s == distFunc
  | cof, _ => true

abbrev Taint := Setting → Bool     -- true = consistent with the current value of that setting

structure VState where
  cache : Cache → Option Taint

def allFresh : Taint := fun _ => true

def VState.init : VState := { cache := fun _ => none }

def fill (st : VState) (c : Cache) (t : Taint) : VState :=
  { cache := fun c' => if c' = c then some t else st.cache c' }

def getT (st : VState) (c : Cache) : Taint := (st.cache c).getD allFresh

/-- combine: settings in the dependency set of a source cache inherit that cache's taint -/
def inherit (st : VState) (srcs : List Cache) : Taint :=
  fun s => srcs.all fun c => !deps c s || getT st c s

def ensureMask (st : VState) : VState :=
  match st.cache mask with
  | some _ => st
  | none => fill st mask allFresh

def ensureBins (st : VState) : VState :=
  match st.cache bins with
  | some _ => st
  | none => let st := ensureMask st; fill st bins (inherit st [mask])

/-- `_calc_groups(force)` -/
def calcGroups (force : Bool) (st : VState) : VState :=
  match st.cache groups, force with
  | some _, false => ensureMask st
  | _, _ => let st := ensureMask (ensureBins st); fill st groups (inherit st [bins, mask])

/-- `_calc_diff(force)` -/
def calcDiff (force : Bool) (st : VState) : VState :=
  match st.cache diff, force with
  | some _, false => st
  | _, _ => fill st diff allFresh

/-- `preprocessing(force)` -/
def preprocessing (force : Bool) (st : VState) : VState := calcGroups force (calcDiff force st)

/-- `pairwise_diffs` getter -/
def readDiff (st : VState) : VState :=
  match st.cache diff with
  | some _ => st
  | none => preprocessing false st

/-- `lag_classes()`: pairwise_diffs, lag_groups(), bins -/
def lagClassesRead (st : VState) : VState := ensureBins (calcGroups false (readDiff st))

def readBinCount (st : VState) : VState :=
  match st.cache binCount with
  | some _ => st
  | none => let st := lagClassesRead st; fill st binCount (inherit st [groups])

/-- `fit(force=True)` for the least-squares methods -/
def fitForce (st : VState) : VState :=
  let st := preprocessing true st
  let st := lagClassesRead (ensureBins st)
  fill st cof (inherit st [bins, groups, diff])

/-- `describe()` / `parameters` -/
def readParameters (st : VState) : VState :=
  let st := match st.cache cof with
    | some _ => st
    | none => fitForce st
  lagClassesRead (ensureBins st)

/-- `transform(x)` -/
def readTransform (st : VState) : VState :=
  let st := preprocessing false st
  match st.cache cof with
  | some _ => st
  | none => fitForce st

inductive Read where
  | bins | binCount | experimental | parameters | transform | diffs
  deriving DecidableEq, Repr

/-- what a setter does to a cache: leave it (it gets tainted), clear it, or overwrite it with a
value computed from the new setting -/
inductive Action where
  | keep | clear | refill
  deriving DecidableEq, Repr

/-- `alt` selects the branch of a setter that writes instead of clearing (user-supplied edges in
`set_bin_func`) -/
inductive Op where
  | set (s : Setting) (alt : Bool)
  | read (r : Read)
  deriving Repr

def doRead (st : VState) : Read → VState
  | .bins => ensureBins st
  | .binCount => readBinCount st
  | .experimental => lagClassesRead st
  | .parameters => readParameters st
  | .transform => readTransform st
  | .diffs => readDiff st

/-- the cache whose content a read reports -/
def Read.target : Read → Cache
  | .bins => Cache.bins
  | .binCount => Cache.binCount
  | .experimental => Cache.groups
  | .parameters => Cache.cof
  | .transform => Cache.cof
  | .diffs => Cache.diff

/-- a setter: caches named by the invalidation table are cleared or recomputed, the others are
tainted -/
def doSet (act : Setting → Cache → Action) (st : VState) (s : Setting) : VState :=
  { cache := fun c => match act s c with
      | .clear => none
      | .refill => some allFresh
      | .keep => (st.cache c).map fun t => fun s' => if s' = s then false else t s' }

def step (act : Bool → Setting → Cache → Action) (st : VState) : Op → VState
  | .set s alt => doSet (act alt) st s
  | .read r => doRead st r

def run (act : Bool → Setting → Cache → Action) (ops : List Op) : VState :=
  ops.foldl (step act) VState.init

/-- is the value a read reports consistent with the current settings? -/
def freshRead (st : VState) (r : Read) : Bool :=
  match (doRead st r).cache r.target with
  | none => false
  | some t => Setting.all.all fun s => !deps r.target s || t s

/-- the invalidation table covers the dependency relation -/
def coversB (act : Setting → Cache → Action) (gaps : List (Setting × Cache)) : Bool :=
  Setting.all.all fun s => Cache.all.all fun c =>
    !deps c s || decide (act s c ≠ .keep) || gaps.contains (s, c)

end Skg

namespace Skg

open Setting Cache

def Setting.setter : Setting → String
  | values => "set_values" | nLags => "n_lags.setter" | maxlag => "maxlag.setter"
  | binFunc => "set_bin_func" | binsDirect => "bins.setter" | estimator => "set_estimator"
  | model => "set_model" | useNugget => "use_nugget.setter" | fitMethod => "fit_method.setter"
  | fitSigma => "fit_sigma.setter" | distFunc => "set_dist_function" | azimuth => "azimuth.setter"
  | tolerance => "tolerance.setter" | bandwidth => "bandwidth.setter"
  | dirModel => "set_directional_model"

def Cache.attr : Cache → String
  | bins => "_bins" | groups => "_groups" | binCount => "_bin_count" | diff => "_diff"
  | cof => "cof" | mask => "_direction_mask_cache"

/-- a cache is cleared if the setter resets it on every path, refilled if the setter (also)
overwrites it with a value computed from the new setting; a reset on one branch and a write on
the other (`set_bin_func`: named method vs. user-supplied edges) is resolved by `alt`, as is a
reset that is skipped while user-supplied edges are active (they stay valid: `alt`) -/
def actOfTable (tbl : List (String × List String × List String × List String)) (alt : Bool)
    (s : Setting) (c : Cache) : Action :=
  match tbl.find? (fun row => row.1 == s.setter) with
  | none => .keep
  | some (_, must, may, writes) =>
    let a := c.attr
    if writes.contains a && (must.contains a || !may.contains a) then .refill
    else if must.contains a && may.contains a then (if alt then .refill else .clear)
    else if must.contains a then .clear
    else if may.contains a && writes.contains a then (if alt then .refill else .clear)
    else .keep

end Skg
