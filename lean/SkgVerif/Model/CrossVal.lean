import SkgVerif.Model.Basic
import SkgVerif.Model.Kriging
/-!
# Jackknife cross-validation (`util/cross_validation.py`)
-/
namespace Skg

/-- `np.delete(x, idx, axis=0)` -/
def deleteAt {α} (l : List α) (i : Nat) : List α := l.eraseIdx i

def somes (devs : List (Option Rat)) : List Rat := devs.filterMap id

/-- `np.nanmean(deviations ** 2)`; `none` when nothing could be estimated -/
def mseScore (devs : List (Option Rat)) : Option Rat :=
  let xs := somes devs
  if xs.isEmpty then none else some (sumR (xs.map fun x => x * x) / (xs.length : Rat))

/-- mean absolute error over the points that could be estimated -/
def maeScore (devs : List (Option Rat)) : Option Rat :=
  let xs := somes devs
  if xs.isEmpty then none else some (sumR (xs.map absR) / (xs.length : Rat))

/-- the pre-repair code: `np.nansum(|dev|) / len(dev)` (D3) -/
def maeScoreDefect (devs : List (Option Rat)) : Option Rat :=
  if devs.isEmpty then none else some (sumR ((somes devs).map absR) / (devs.length : Rat))

/-! ## leave-one-out prediction through the kriging model

`D` = distances between the observations (n × n), `Gm` = fitted semivariances between them,
`v` = observed values.  Holding out `i` deletes row and column `i` of both tables and entry `i`
of the values (`np.delete` in `_interpolate`), the target is the held-out location. -/

/-- index in the full data set of the `a`-th remaining observation -/
def skipIdx (i a : Nat) : Nat := if a < i then a else a + 1

def looPredict (maxDist : Rat) (minP maxP : Nat) (D Gm : List (List Rat)) (v : List Rat)
    (i : Nat) : Outcome :=
  krigeOne maxDist minP maxP (fun a b => (Gm.getD (skipIdx i a) []).getD (skipIdx i b) 0)
    (deleteAt v i) (deleteAt (D.getD i []) i, deleteAt (Gm.getD i []) i)

/-- deviation prediction − observation; `none` when the point cannot be estimated -/
def looDev (maxDist : Rat) (minP maxP : Nat) (D Gm : List (List Rat)) (v : List Rat)
    (i : Nat) : Option Rat :=
  match looPredict maxDist minP maxP D Gm v i with
  | .ok z _ => some (z - v.getD i 0)
  | _ => none

/-- `jacknife`: deviations of the selected points, in the order of the selection -/
def jackknife (maxDist : Rat) (minP maxP : Nat) (D Gm : List (List Rat)) (v : List Rat)
    (sel : List Nat) : List (Option Rat) :=
  sel.map (looDev maxDist minP maxP D Gm v)

end Skg
