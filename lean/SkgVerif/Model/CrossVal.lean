import SkgVerif.Model.Basic
/-!
# Jackknife cross-validation (`util/cross_validation.py`)
-/
namespace Skg

/-- `np.delete(x, idx, axis=0)` -/
def deleteAt {α} (l : List α) (i : Nat) : List α := l.eraseIdx i

def somes (devs : List (Option Rat)) : List Rat := devs.filterMap id

/-- `np.nanmean(deviations ** 2)`; `none` when nothing could be estimated -/
def mseScore (devs : List (Option Rat)) : Option Rat :=
  let xs := somes devs
  if xs.isEmpty then none else some (sumR (xs.map fun x => x * x) / (xs.length : Rat))

/-- mean absolute error over the points that could be estimated -/
def maeScore (devs : List (Option Rat)) : Option Rat :=
  let xs := somes devs
  if xs.isEmpty then none else some (sumR (xs.map absR) / (xs.length : Rat))

/-- the pre-repair code: `np.nansum(|dev|) / len(dev)` (D3) -/
def maeScoreDefect (devs : List (Option Rat)) : Option Rat :=
  if devs.isEmpty then none else some (sumR ((somes devs).map absR) / (devs.length : Rat))

end Skg
