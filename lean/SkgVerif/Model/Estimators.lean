import SkgVerif.Model.Basic
/-!
# Semivariance estimators (documented definitions) over exact rationals

`none` models NaN (empty lag class).  Cressie-Hawkins needs square roots and therefore
runs on `Float` (`cressieF`); everything else is exact.
-/
namespace Skg

/-- Matheron: `1/(2N) Σ x²` -/
def matheron (xs : List Rat) : Option Rat :=
  if xs.isEmpty then none
  else some (1 / (2 * (xs.length : Rat)) * sumR (xs.map fun x => x * x))

/-- ordered insertion (structural; same shape as Mathlib's `List.orderedInsert (· ≤ ·)`) -/
def insR (a : Rat) : List Rat → List Rat
  | [] => [a]
  | b :: l => if a ≤ b then a :: b :: l else b :: insR a l

/-- insertion sort: structural, so that the kernel can evaluate concrete instances -/
def sortR : List Rat → List Rat
  | [] => []
  | b :: l => insR b (sortR l)

/-- median of a non-empty list (mean of the two middle order statistics for even length) -/
def median (xs : List Rat) : Option Rat :=
  let s := sortR xs
  let n := s.length
  if n = 0 then none
  else if n % 2 = 1 then some (s.getD (n / 2) 0)
  else some ((s.getD (n / 2 - 1) 0 + s.getD (n / 2) 0) / 2)

/-- Dowd: `2.198 · median(x)² / 2` -/
def dowd (xs : List Rat) : Option Rat :=
  (median xs).map fun m => (2198 : Rat) / 1000 * (m * m) / 2

/-- NumPy's default (`linear`) quantile of a *sorted* list at `0 ≤ q ≤ 1`:
virtual index `q·(n−1)`, linear interpolation between the neighbouring order statistics -/
def quantileSorted (s : List Rat) (q : Rat) : Rat :=
  let n := s.length
  let pos := q * ((n : Rat) - 1)
  let lo := pos.floor.toNat
  let a := s.getD (min lo (n - 1)) 0
  let b := s.getD (min (lo + 1) (n - 1)) 0
  a + (pos - (lo : Rat)) * (b - a)

def quantile (xs : List Rat) (q : Rat) : Rat := quantileSorted (sortR xs) q

/-- all `|x_i − x_j|`, `i < j` -/
def allAbsDiffs : List Rat → List Rat
  | [] => []
  | x :: rest => (rest.map fun y => absR (x - y)) ++ allAbsDiffs rest

/-- generalised `binom(x, 2) = x (x−1) / 2` (what `scipy.special.binom` returns for real `x`) -/
def binom2 (x : Rat) : Rat := x * (x - 1) / 2

/-- Genton as *coded*: constant 2.219, `k = binom(N/2+1, 2)` with the unfloored `N/2`
(DESIGN D15: the documentation says 2.2191 and `[N/2]`) -/
def genton (xs : List Rat) : Option Rat :=
  let n := xs.length
  if n < 2 then none
  else
    let y := allAbsDiffs xs
    let kq : Rat := if n ≥ 500 then 1 / 4 else binom2 ((n : Rat) / 2 + 1) / binom2 (n : Rat)
    let qv := quantile y kq
    some (1 / 2 * ((2219 : Rat) / 1000 * qv) * ((2219 : Rat) / 1000 * qv))

/-- Genton as *documented*: `[N/2]` floored -/
def gentonDoc (xs : List Rat) : Option Rat :=
  let n := xs.length
  if n < 2 then none
  else
    let y := allAbsDiffs xs
    let kq : Rat := if n ≥ 500 then 1 / 4 else binom2 (((n / 2 : Nat) : Rat) + 1) / binom2 (n : Rat)
    let qv := quantile y kq
    some (1 / 2 * ((2219 : Rat) / 1000 * qv) * ((2219 : Rat) / 1000 * qv))

/-- Cressie-Hawkins on floats: `(1/N Σ |x|^½)^4 / (2 (0.457 + 0.494/N + 0.045/N²))` -/
def cressieF (xs : List Float) : Option Float :=
  if xs.isEmpty then none
  else
    let n := Float.ofNat xs.length
    let m := (xs.foldl (fun acc x => acc + Float.sqrt x) 0) / n
    some (m * m * m * m / (2 * (0.457 + 0.494 / n + 0.045 / (n * n))))

end Skg
