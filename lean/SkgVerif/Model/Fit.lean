import SkgVerif.Model.Basic
/-!
# Coefficient vector of a fitted variogram and its views (`Variogram.fit`, `describe`,
`parameters`, `fitted_model_function`) and the inputs of the least-squares fit
-/
namespace Skg

/-- built-in single models: two parameters (range, sill) or three (plus shape/smoothness) -/
inductive Kind where
  | plain
  | shaped
  deriving Repr, DecidableEq

def baseLen : Kind → Nat
  | .plain => 2
  | .shaped => 3

structure Descr where
  range : Rat
  sill : Rat
  shape : Option Rat
  nugget : Rat
  deriving Repr, DecidableEq

/-- `describe()`: range `cof[0]`, sill `cof[1]`, shape `cof[2]` (stable / matern),
nugget `cof[-1] if use_nugget else 0` -/
def describeOf (k : Kind) (useNugget : Bool) (cof : List Rat) : Descr :=
  { range := cof.getD 0 0, sill := cof.getD 1 0,
    shape := match k with | .plain => none | .shaped => some (cof.getD 2 0),
    nugget := if useNugget then cof.getLastD 0 else 0 }

/-- `parameters`: `[range, sill, (shape), nugget]` -/
def parametersOf (d : Descr) : List Rat := [d.range, d.sill] ++ d.shape.toList ++ [d.nugget]

/-- `fitted_model_function(**describe)`: `[range, sill, (smoothness|shape), nugget if != 0]` -/
def rebuildCof (d : Descr) : List Rat :=
  [d.range, d.sill] ++ d.shape.toList ++ (if d.nugget != 0 then [d.nugget] else [])

/-- Python call `model(h, *ps)`: a missing trailing nugget takes its default `b = 0` -/
def callArgs (k : Kind) (ps : List Rat) : Option (List Rat) :=
  if ps.length = baseLen k then some (ps ++ [0])
  else if ps.length = baseLen k + 1 then some ps
  else none

/-- the layout `fit` establishes for trf / lm (and for manual fits after the D6 repair) -/
def layoutOK (k : Kind) (useNugget : Bool) (cof : List Rat) : Bool :=
  cof.length == baseLen k + (if useNugget then 1 else 0)

/-! ## inputs of the fit -/

/-- remove the lag classes whose experimental value is NaN from x, y and (if given) sigma with
one and the same mask -/
def nanFilter3 (x : List Rat) (y : List (Option Rat)) (sigma : Option (List Rat)) :
    List Rat × List Rat × Option (List Rat) :=
  let keep := y.map Option.isSome
  let pick := fun (l : List Rat) => ((l.zip keep).filter (·.2)).map (·.1)
  (pick x, y.filterMap id, sigma.map pick)

/-- the pre-repair behaviour (D5): sigma is passed unfiltered -/
def nanFilter3Defect (x : List Rat) (y : List (Option Rat)) (sigma : Option (List Rat)) :
    List Rat × List Rat × Option (List Rat) :=
  let r := nanFilter3 x y sigma
  (r.1, r.2.1, sigma)

/-- documented upper bounds of the parameters of one model component -/
inductive BTok where
  | maxX          -- largest lag edge
  | maxY          -- largest experimental value
  | const (c : Rat)
  | nug           -- 0.99 × largest experimental value
  deriving Repr, DecidableEq

def documentedBounds (mname : String) : List BTok :=
  if mname = "matern" then [.maxX, .maxY, .const 20]
  else if mname = "stable" then [.maxX, .maxY, .const 2]
  else [.maxX, .maxY]

def evalBTok (maxX maxY : Rat) : BTok → Rat
  | .maxX => maxX
  | .maxY => maxY
  | .const c => c
  | .nug => 99 / 100 * maxY

/-- upper bounds for a (possibly '+'-joined) model: per component, nugget bound appended after
the last component iff `use_nugget` -/
def boundsFor (table : String → List BTok) (names : List String) (useNugget : Bool) : List BTok :=
  match names with
  | [] => []
  | [m] => table m ++ (if useNugget then [.nug] else [])
  | m :: rest => table m ++ boundsFor table rest useNugget

/-- weighted sum of squares the fit minimises -/
def objective (model : Rat → Rat) (x y sigma : List Rat) : Rat :=
  sumR ((x.zip (y.zip sigma)).map fun p => ((model p.1 - p.2.1) / p.2.2) * ((model p.1 - p.2.1) / p.2.2))

end Skg
