import SkgVerif.Model.Basic
/-!
# Lag-class assignment and per-class aggregation (model of `Variogram._calc_groups`,
`lag_classes`, `bin_count`, `_experimental`, `pdist` order, `_calc_diff`)

Literal transcription (DESIGN Appendix A):
`_calc_groups`: all −1, then for `i, (lo, hi)` over `zip([0]+edges, edges)`:
`d >= lo & d < hi ↦ i`, later matches overwrite.
-/
namespace Skg

/-- loop body over `(lo, hi)` intervals with running index; later matches overwrite -/
def groupAux (d : Rat) : List (Rat × Rat) → Nat → Int → Int
  | [], _, g => g
  | (lo, hi) :: rest, i, g => groupAux d rest (i+1) (if lo ≤ d ∧ d < hi then (i : Int) else g)

def intervals (edges : List Rat) : List (Rat × Rat) := List.zip (0 :: edges) edges

/-- the lag class of one distance: index of the class, or −1 -/
def groupLoop (edges : List Rat) (d : Rat) : Int := groupAux d (intervals edges) 0 (-1)

def groups (edges : List Rat) (ds : List Rat) : List Int := ds.map (groupLoop edges)

/-- `diffs[np.where(groups == i)]` -/
def lagClass {α} (gs : List Int) (xs : List α) (i : Nat) : List α :=
  ((gs.zip xs).filter (fun p => p.1 == (i : Int))).map (·.2)

def lagClasses {α} (nEdges : Nat) (gs : List Int) (xs : List α) : List (List α) :=
  (List.range nEdges).map (lagClass gs xs)

def binCount (nEdges : Nat) (gs : List Int) : List Nat :=
  (List.range nEdges).map fun (i : Nat) => (gs.filter (fun g => g == (i : Int))).length

/-- `np.fromiter(map(est, lag_classes()))` -/
def experimental {α β} (est : List α → β) (nEdges : Nat) (gs : List Int) (xs : List α) : List β :=
  (lagClasses nEdges gs xs).map est

/-- row-major pairs `i < j` of `0..n-1` — the order of `scipy.spatial.distance.pdist` -/
def pairsFrom (n : Nat) (i : Nat) : List (Nat × Nat) :=
  (List.range (n - (i+1))).map fun k => (i, i + 1 + k)

def pairs (n : Nat) : List (Nat × Nat) :=
  (List.range n).flatMap (pairsFrom n)

/-- position of the pair `(i, j)`, `i < j < n`, in the condensed vector -/
def condIdx (n i j : Nat) : Nat := n * i - i * (i + 1) / 2 + (j - i - 1)

/-- `pdist([[v,0]])` = `|v_i − v_j|` over `pairs n` -/
def pairDiffs (v : List Rat) : List Rat :=
  (pairs v.length).map fun p => absR (v.getD p.1 0 - v.getD p.2 0)

/-- cross-variogram: product of the two difference vectors, pair by pair -/
def crossDiffs (v w : List Rat) : List Rat :=
  List.zipWith (· * ·) (pairDiffs v) (pairDiffs w)

end Skg
