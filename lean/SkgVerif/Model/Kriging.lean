import SkgVerif.Model.Basic
/-!
# Ordinary kriging (model of `Kriging.py` and `DistanceMethods.find_closest`)

* neighbourhood: candidates within range, *stable* sort by distance, first `N`
  (only when there are more than `N` candidates — otherwise index order, as coded)
* system: γ-block with zero diagonal, unit row/column, zero corner; RHS `γ(d(p,·))`, 1
* exact solve over ℚ (Gauss-Jordan) with residual certificate
* per-call bookkeeping of `transform` / `_estimator`
-/
namespace Skg

/-! ## neighbour search -/

/-- ordered insertion by distance; equal distances keep their relative order (stable) -/
def insP (a : Rat × Nat) : List (Rat × Nat) → List (Rat × Nat)
  | [] => [a]
  | b :: l => if a.1 ≤ b.1 then a :: b :: l else b :: insP a l

/-- stable insertion sort by distance (`np.argsort(kind='stable')`): inserting from the right
keeps earlier entries in front of later equal ones -/
def sortP : List (Rat × Nat) → List (Rat × Nat)
  | [] => []
  | b :: l => insP b (sortP l)

/-- candidates `(distance, index)` → selected indices -/
def selectFrom (cands : List (Rat × Nat)) (N : Nat) : List Nat :=
  if cands.length > N then ((sortP cands).take N).map (·.2) else cands.map (·.2)

/-- dense row: all points with `d ≤ maxDist` are candidates -/
def candidatesDense (row : List Rat) (maxDist : Rat) : List (Rat × Nat) :=
  (row.zipIdx.filter fun p => p.1 ≤ maxDist)

def findClosestDense (row : List Rat) (maxDist : Rat) (N : Nat) : List Nat :=
  selectFrom (candidatesDense row maxDist) N

/-- sparse row: exactly the stored entries are candidates -/
def findClosestSparse (entries : List (Rat × Nat)) (N : Nat) : List Nat := selectFrom entries N

/-! ## system assembly -/

/-- `(n+1)×(n+1)` kriging matrix from the `n×n` semivariances between the selected observations -/
def assemble (n : Nat) (G : Nat → Nat → Rat) : List (List Rat) :=
  ((List.range n).map fun i => ((List.range n).map fun j => if i = j then 0 else G i j) ++ [1])
    ++ [((List.range n).map fun _ => (1 : Rat)) ++ [0]]

def rhs (n : Nat) (g0 : Nat → Rat) : List Rat := ((List.range n).map g0) ++ [1]

def dot (a b : List Rat) : Rat := sumR (List.zipWith (· * ·) a b)

def mulVec (A : List (List Rat)) (x : List Rat) : List Rat := A.map fun row => dot row x

/-! ## exact solve -/

def swapRows (m : Array (Array Rat)) (i j : Nat) : Array (Array Rat) :=
  if i = j then m else
  let ri := m[i]!; let rj := m[j]!
  (m.set! i rj).set! j ri

/-- Gauss-Jordan on the augmented matrix; `none` if singular (unverified; see `checkSol`) -/
def solveQ (a : List (List Rat)) (b : List Rat) : Option (List Rat) := Id.run do
  let n := a.length
  let mut m : Array (Array Rat) := (a.zip b).toArray.map fun p => (p.1 ++ [p.2]).toArray
  for c in [0:n] do
    let mut p := n
    for r in [c:n] do
      if p == n && m[r]![c]! != 0 then p := r
    if p == n then return none
    m := swapRows m c p
    let piv := m[c]![c]!
    let rowc := m[c]!.map (· / piv)
    m := m.set! c rowc
    for r in [0:n] do
      if r != c then
        let f := m[r]![c]!
        if f != 0 then
          let rowr := m[r]!
          m := m.set! r ((Array.range (n+1)).map fun k => rowr[k]! - f * rowc[k]!)
  return some (m.toList.map fun row => row[n]!)

/-- certificate: `x` solves `A x = b` exactly -/
def checkSol (A : List (List Rat)) (x b : List Rat) : Bool :=
  x.length == b.length && decide (mulVec A x = b)

structure KrigeResult where
  weights : List Rat
  mu : Rat
  estimate : Rat
  variance : Rat

/-- `_krige` after neighbour selection: `none` = singular system -/
def krigeSolve (n : Nat) (G : Nat → Nat → Rat) (g0 : Nat → Rat) (v : List Rat) : Option KrigeResult :=
  let A := assemble n G
  let b := rhs n g0
  match solveQ A b with
  | none => none
  | some x =>
    if checkSol A x b then
      let w := x.take n
      let mu := x.getD n 0
      some { weights := w, mu := mu, estimate := dot w v,
             variance := dot (b.take n) w + mu }
    else none

/-! ## per-call bookkeeping (`transform`, `_estimator`) -/

structure KState where
  sigma : List (Option Rat)     -- buffer, starts as NaN
  cursor : Nat
  noPoints : Nat
  singular : Nat
  z : List (Option Rat)         -- results in target order

inductive Outcome where
  | ok (z sigma : Rat)
  | lessPoints
  | singular

def initState (nTargets : Nat) : KState :=
  { sigma := List.replicate nTargets none, cursor := 0, noPoints := 0, singular := 0, z := [] }

def stepEstimator (s : KState) : Outcome → KState
  | .ok z sg => { s with sigma := s.sigma.set s.cursor (some sg), cursor := s.cursor + 1,
                         z := s.z ++ [some z] }
  | .lessPoints => { s with cursor := s.cursor + 1, noPoints := s.noPoints + 1, z := s.z ++ [none] }
  | .singular => { s with cursor := s.cursor + 1, singular := s.singular + 1, z := s.z ++ [none] }

def transformLoop (outcomes : List Outcome) : KState :=
  outcomes.foldl stepEstimator (initState outcomes.length)

/-! ## one target end to end (`_krige`) and a whole `transform` call

`row` = distances target → observations, `g0row` = fitted semivariances target → observations,
`G i j` = fitted semivariance between observations `i` and `j`, `v` = observed values. -/

def krigeOne (maxDist : Rat) (minP maxP : Nat) (G : Nat → Nat → Rat) (v : List Rat)
    (t : List Rat × List Rat) : Outcome :=
  let idx := findClosestDense t.1 maxDist maxP
  if idx.length < minP then .lessPoints else
  match krigeSolve idx.length (fun a b => G (idx.getD a 0) (idx.getD b 0))
      (fun a => t.2.getD (idx.getD a 0) 0) (idx.map fun i => v.getD i 0) with
  | none => .singular
  | some r => .ok r.estimate r.variance

def krigeTransform (maxDist : Rat) (minP maxP : Nat) (G : Nat → Nat → Rat) (v : List Rat)
    (targets : List (List Rat × List Rat)) : KState :=
  transformLoop (targets.map (krigeOne maxDist minP maxP G v))

end Skg
