import SkgVerif.Model.Basic
/-!
# Ownership of stored and returned arrays (C18)

Caller-side arrays are cells of a store; a field of an instance either owns a private copy or
aliases a caller cell.  Operations: the caller writes a cell, the instance is read, cloned, the
clone is modified, a returned array is modified by the caller.
-/
namespace Skg

inductive Field where
  | owned (v : Nat)
  | shared (cell : Nat)
  deriving Repr, DecidableEq

abbrev Store := Nat → Nat

structure Inst where
  fields : List Field
  deriving Repr

def readField (σ : Store) : Field → Nat
  | .owned v => v
  | .shared c => σ c

def observe (σ : Store) (i : Inst) : List Nat := i.fields.map (readField σ)

inductive COp where
  | callerWrite (cell v : Nat)       -- the caller mutates one of its arrays
  | mutateReturned (k v : Nat)       -- the caller mutates an array the instance handed out
  deriving Repr

def writeStore (σ : Store) (c v : Nat) : Store := fun x => if x = c then v else σ x

/-- `returned k` says whether the k-th field is handed out as a copy (`true`) or as the stored
array itself -/
def applyOp (returnedCopy : Nat → Bool) (s : Store × Inst) : COp → Store × Inst
  | .callerWrite c v => (writeStore s.1 c v, s.2)
  | .mutateReturned k v =>
      if returnedCopy k then s
      else (s.1, { fields := s.2.fields.set k (.owned v) })

/-- deep copy: every field becomes a private copy of its current content -/
def clone (σ : Store) (i : Inst) : Inst := { fields := i.fields.map fun f => .owned (readField σ f) }

def allOwned (i : Inst) : Bool := i.fields.all fun f => match f with | .owned _ => true | .shared _ => false

/-- which stored inputs / returned arrays must be copies according to the property -/
def requiredCopies : List String :=
  ["Variogram._values", "Variogram.coordinates(MetricSpace)",
   "Variogram.coordinates(ProbabalisticMetricSpace)", "Variogram.bins(return)", "MetricSpace.coords",
   "OrdinaryKriging.values"]

def tableOK (tbl : List (String × String)) : Bool :=
  requiredCopies.all fun k => tbl.any fun p => p.1 == k && p.2 == "copy"

end Skg
