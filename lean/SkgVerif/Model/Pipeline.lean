import SkgVerif.Model.Binning
import SkgVerif.Model.Grouping
/-!
# The experimental variogram end to end (`Variogram.__init__` → `bins` → `lag_groups` →
`experimental`, dense storage)

`ds` = pair distances in `pdist` order, `v` = observed values; the maxlag request is resolved
by the setter model, clipped by the binning function, the edges are built (`even` / `uniform`),
pairs are grouped, counted, and the estimator is mapped over the classes.
-/
namespace Skg

inductive BinMethod where
  | even
  | uniform
  deriving Repr, DecidableEq

structure VarioResult where
  maxlag : Option Rat          -- what `Variogram.maxlag` reports (resolved request)
  edges : List Rat             -- `Variogram.bins`
  groups : List Int            -- `Variogram.lag_groups()`
  counts : List Nat            -- `Variogram.bin_count`
  exp : List (Option Rat)      -- `Variogram.experimental`

def edgesOf (bm : BinMethod) (nl : Nat) (m : Rat) (ds : List Rat) : List Rat :=
  match bm with
  | .even => evenEdges nl m
  | .uniform => uniformEdges nl m ds

def variogramE2E (est : List Rat → Option Rat) (bm : BinMethod) (nl : Nat) (req : MaxlagReq)
    (ds v : List Rat) : VarioResult :=
  let ml := resolveMaxlag req ds
  let m := effMax ml ds
  let edges := edgesOf bm nl m ds
  let gs := groups edges ds
  { maxlag := ml, edges := edges, groups := gs, counts := binCount edges.length gs,
    exp := experimental est edges.length gs (pairDiffs v) }

end Skg
