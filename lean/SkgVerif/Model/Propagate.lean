import SkgVerif.Model.Binning
/-!
# Monte-Carlo uncertainty propagation (`util/uncertainty.py`): percentile bounds
-/
namespace Skg

/-- `np.percentile(res, p)` (linear interpolation), `p` in percent -/
def percentile (xs : List Rat) (p : Rat) : Rat := quantile xs (p / 100)

/-- (lower, median, upper) of one evaluated element for the confidence level `q` (percent):
the q/2-th percentile, the median, the (100 − q/2)-th percentile -/
def bounds (xs : List Rat) (q : Rat) : Rat × Rat × Rat :=
  (percentile xs (q / 2), percentile xs 50, percentile xs (100 - q / 2))

/-- the pre-repair levels: `int(q / 2)` and `100 - int(q / 2)` (D12) -/
def boundsDefect (xs : List Rat) (q : Rat) : Rat × Rat × Rat :=
  let t : Rat := ((q / 2).floor : Int)
  (percentile xs t, percentile xs 50, percentile xs (100 - t))

/-- the evaluation targets whose interval matrices one `propagate` call returns, in the order of
the result list: the member function tests the targets one after the other in the fixed order
`order` and appends the result of each requested one; the intervals are split off by position -/
def targetsOut (order req : List String) : List String := order.filter (fun t => req.contains t)

end Skg
