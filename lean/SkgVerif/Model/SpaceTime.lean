import SkgVerif.Model.Grouping
/-!
# Space-time experimental variogram (`SpaceTimeVariogram._calc_diff`, `_calc_group`,
`lag_classes`, `_get_experimental`, `get_marginal`) and the sample assembly of `fit`
-/
namespace Skg

/-- open-closed lag classes: `d > lo & d <= hi ↦ i`, later matches overwrite -/
def groupAuxOC (d : Rat) : List (Rat × Rat) → Nat → Int → Int
  | [], _, g => g
  | (lo, hi) :: rest, i, g => groupAuxOC d rest (i+1) (if lo < d ∧ d ≤ hi then (i : Int) else g)

def groupLoopOC (edges : List Rat) (d : Rat) : Int := groupAuxOC d (intervals edges) 0 (-1)

def groupsOC (edges : List Rat) (ds : List Rat) : List Int := ds.map (groupLoopOC edges)

/-- the quadruple loop: rows = location pairs `a < b`, columns = time-step pairs `s < t`,
entry `|v[a,s] − v[b,t]|` -/
def stDiff (v : List (List Rat)) : List (List Rat) :=
  let nT := (v.headD []).length
  (pairs v.length).map fun p =>
    (pairs nT).map fun q => absR ((v.getD p.1 []).getD q.1 0 - (v.getD p.2 []).getD q.2 0)

/-- `diff[xgrp == i][:, tgrp == j].flatten()` -/
def stCell (xg tg : List Int) (D : List (List Rat)) (i j : Nat) : List Rat :=
  (lagClass xg D i).flatMap fun row => lagClass tg row j

/-- `lag_classes()` mapped through the estimator: space-major double loop -/
def stExperimental {β} (est : List Rat → β) (nx nt : Nat) (xg tg : List Int) (D : List (List Rat)) :
    List β :=
  (List.range nx).flatMap fun i => (List.range nt).map fun j => est (stCell xg tg D i j)

/-- `get_marginal(axis, lag)` -/
def stMarginalSpace {β} (est : List Rat → β) (nx : Nat) (xg tg : List Int) (D : List (List Rat))
    (lag : Nat) : List β := (List.range nx).map fun i => est (stCell xg tg D i lag)

def stMarginalTime {β} (est : List Rat → β) (nt : Nat) (xg tg : List Int) (D : List (List Rat))
    (lag : Nat) : List β := (List.range nt).map fun j => est (stCell xg tg D lag j)

/-- samples handed to `curve_fit` (after the D2 repair): cell `k` of the space-major table is
paired with the space lag `xb[k / nt]` and the time lag `tb[k % nt]`; NaN cells are dropped -/
def stSamples (xb tb : List Rat) (z : List (Option Rat)) : List (Rat × Rat × Rat) :=
  (z.zipIdx.filterMap fun p => p.1.map fun zv =>
    (xb.getD (p.2 / tb.length) 0, tb.getD (p.2 % tb.length) 0, zv))

/-- the pre-repair pairing: `meshgrid(xbins, tbins)` flattened time-major -/
def stSamplesDefect (xb tb : List Rat) (z : List (Option Rat)) : List (Rat × Rat × Rat) :=
  (z.zipIdx.filterMap fun p => p.1.map fun zv =>
    (xb.getD (p.2 % xb.length) 0, tb.getD (p.2 / xb.length) 0, zv))

end Skg
