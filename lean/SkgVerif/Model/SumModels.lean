import SkgVerif.Model.Basic
/-!
# '+'-joined sums of models (`Variogram._get_argpos_sum_models`, `_build_sum_models`)

`ks[i]` = number of parameters of component `i` without lag and nugget
(`len(argspec.args) - 2`); the last component additionally receives the single shared nugget.
-/
namespace Skg

def slicesAux : Nat → List Nat → List (Nat × Nat)
  | _, [] => []
  | off, [k] => [(off, off + k + 1)]
  | off, k :: k' :: rest => (off, off + k) :: slicesAux (off + k) (k' :: rest)

/-- `args_slices`: `np.cumsum` of the per-model counts with `+1` on the last, as (start, stop) -/
def argSlices (ks : List Nat) : List (Nat × Nat) := slicesAux 0 ks

def slice {α} (args : List α) (p : Nat × Nat) : List α := (args.drop p.1).take (p.2 - p.1)

/-- `sum(list_models[i](h, *args[args_slices[i]]))` for component evaluators `fs` -/
def sumModel {α β} [Add β] [OfNat β 0] (fs : List (List α → β)) (ks : List Nat) (args : List α) : β :=
  ((fs.zip (argSlices ks)).map fun p => p.1 (slice args p.2)).foldl (· + ·) 0

end Skg
