import SkgVerif.Model.Basic
import SkgVerif.Model.Grouping
import SkgVerif.Model.Estimators
import SkgVerif.Model.Binning
import SkgVerif.Model.SumModels
import SkgVerif.Model.Kriging
import SkgVerif.Model.Pipeline
import SkgVerif.Model.CrossVal
import SkgVerif.Model.Fit
import SkgVerif.Gen.Tables
import SkgVerif.Gen.DirectionExec
import SkgVerif.Gen.FitSigmaExec
import SkgVerif.Model.CacheMachine
import SkgVerif.Model.SpaceTime
import SkgVerif.Model.Propagate
import SkgVerif.Gen.ModelsExec
import SkgVerif.Gen.STModelsExec
import SkgVerif.Gen.Source
/-!
# Line protocol handlers (one request line → one response line)

Request: `cmd|arg|arg|…`; every `arg` is a blank-separated token list.
Response: `ok|field|field|…` or `err|reason`.  Floats travel as `toBits` integers.
-/
namespace Skg

def fmtFloat (x : Float) : String := toString x.toBits.toNat
def fmtOptFloat : Option Float → String
  | none => "nan"
  | some x => fmtFloat x

def parseFloatBits (s : String) : Option Float := s.toNat?.map fun n => Float.ofBits n.toUInt64
def parseFloats (s : String) : Option (List Float) := (tokens s).mapM parseFloatBits

def estimatorByName (name : String) : Option (List Rat → Option Rat) :=
  match name with
  | "matheron" => some matheron
  | "dowd" => some dowd
  | "genton" => some genton
  | "gentondoc" => some gentonDoc
  | _ => none

/-- squared Euclidean distance of rows `i`, `j` of a flat row-major coordinate list -/
def sqDist (dim : Nat) (flat : List Rat) (i j : Nat) : Rat :=
  sumR ((List.range dim).map fun k =>
    let a := flat.getD (i * dim + k) 0
    let b := flat.getD (j * dim + k) 0
    (a - b) * (a - b))

def handleC01 : List String → Option String
  | ["groups", e, d] => do
      let edges ← parseRats e
      let ds ← parseRats d
      let gs := groups edges ds
      some s!"ok|{fmtList toString gs}|{fmtList toString (binCount edges.length gs)}"
  | ["exp", est, e, d, x] => do
      let edges ← parseRats e
      let ds ← parseRats d
      let xs ← parseRats x
      let f ← estimatorByName est
      let gs := groups edges ds
      some s!"ok|{fmtList fmtOptRat (experimental f edges.length gs xs)}"
  | ["expcressie", e, d, x] => do
      let edges ← parseRats e
      let ds ← parseRats d
      let xs ← parseRats x
      let gs := groups edges ds
      some s!"ok|{fmtList fmtOptFloat (experimental cressieF edges.length gs (xs.map ratToFloat))}"
  | ["est", est, x] => do
      let xs ← parseRats x
      let f ← estimatorByName est
      some s!"ok|{fmtOptRat (f xs)}"
  | ["pairs", n] => do
      let n ← n.toNat?
      some s!"ok|{fmtList (fun (p : Nat × Nat) => s!"{p.1},{p.2}") (pairs n)}"
  | ["pairdiffs", v] => do
      let v ← parseRats v
      some s!"ok|{fmtList fmtRat (pairDiffs v)}"
  | ["crossdiffs", v, w] => do
      let v ← parseRats v
      let w ← parseRats w
      some s!"ok|{fmtList fmtRat (crossDiffs v w)}"
  | ["sqdists", dim, flat] => do
      let dim ← dim.toNat?
      let flat ← parseRats flat
      if dim = 0 then none else
      let n := flat.length / dim
      some s!"ok|{fmtList fmtRat ((pairs n).map fun p => sqDist dim flat p.1 p.2)}"
  | _ => none


def parseMaxlagReq (s : String) : Option MaxlagReq :=
  match s.trimAscii.toString with
  | "none" => some .none
  | "median" => some .median
  | "mean" => some .mean
  | t => (parseRat t).map .num

def parseOptRat (s : String) : Option (Option Rat) :=
  match s.trimAscii.toString with
  | "none" => some none
  | t => (parseRat t).map some

def handleC02 : List String → Option String
  | ["resolve", req, d] => do
      let r ← parseMaxlagReq req
      let ds ← parseRats d
      let m := resolveMaxlag r ds
      some s!"ok|{fmtOptRat m}|{fmtRat (effMax m ds)}"
  | ["effmax", m, d] => do
      let m ← parseOptRat m
      let ds ← parseRats d
      some s!"ok|{fmtRat (effMax m ds)}"
  | ["even", n, m] => do
      let n ← n.trimAscii.toString.toNat?
      let m ← parseRat m.trimAscii.toString
      some s!"ok|{fmtList fmtRat (evenEdges n m)}"
  | ["uniform", n, m, d] => do
      let n ← n.trimAscii.toString.toNat?
      let m ← parseRat m.trimAscii.toString
      let ds ← parseRats d
      some s!"ok|{fmtList fmtRat (uniformEdges n m ds)}"
  | ["linspace", lo, hi, k] => do
      let lo ← parseRat lo.trimAscii.toString
      let hi ← parseRat hi.trimAscii.toString
      let k ← k.trimAscii.toString.toNat?
      some s!"ok|{fmtList fmtRat (linspaceEdges lo hi k)}"
  | ["midpoints", c] => do
      let cs ← parseRats c
      some s!"ok|{fmtList fmtRat (midpointEdges 0 cs)}"
  | ["quantile", q, d] => do
      let q ← parseRat q.trimAscii.toString
      let ds ← parseRats d
      some s!"ok|{fmtRat (quantile ds q)}"
  | _ => none


/-- the experimental variogram end to end (dense storage, `even` / `uniform`) -/
def handlePipeline : List String → Option String
  | ["pipeline", est, bm, nl, req, d, v] => do
      let f ← estimatorByName est
      let bm ← match bm.trimAscii.toString with
        | "even" => some BinMethod.even | "uniform" => some BinMethod.uniform | _ => none
      let nl ← nl.trimAscii.toString.toNat?
      let req ← parseMaxlagReq req
      let ds ← parseRats d
      let v ← parseRats v
      let r := variogramE2E f bm nl req ds v
      some s!"ok|{fmtOptRat r.maxlag}|{fmtList fmtRat r.edges}|{fmtList toString r.groups}|{fmtList toString r.counts}|{fmtList fmtOptRat r.exp}"
  | _ => none

def evalModelF (name : String) (a : List Float) : Option Float :=
  match name, a with
  | "spherical", [h, r, c0, b] => some (Gen.sphericalF h r c0 b)
  | "exponential", [h, r, c0, b] => some (Gen.exponentialF h r c0 b)
  | "gaussian", [h, r, c0, b] => some (Gen.gaussianF h r c0 b)
  | "cubic", [h, r, c0, b] => some (Gen.cubicF h r c0 b)
  | "stable", [h, r, c0, s, b] => some (Gen.stableF h r c0 s b)
  | _, _ => none

def handleC03 : List String → Option String
  | ["eval", name, a] => do
      let a ← parseFloats a
      let v ← evalModelF name.trimAscii.toString a
      some s!"ok|{fmtFloat v}"
  | ["evalq", name, a] => do
      let a ← parseRats a
      match name.trimAscii.toString, a with
      | "spherical", [h, r, c0, b] => some s!"ok|{fmtRat (Gen.sphericalQ h r c0 b)}"
      | "cubic", [h, r, c0, b] => some s!"ok|{fmtRat (Gen.cubicQ h r c0 b)}"
      | _, _ => none
  | ["slices", ks] => do
      let ks ← parseNats ks
      some s!"ok|{fmtList (fun (p : Nat × Nat) => s!"{p.1},{p.2}") (argSlices ks)}"
  | _ => none


def buildOutcomes : List String → List Rat → List Rat → Option (List Outcome)
  | [], _, _ => some []
  | "k" :: ks, z :: zs, g :: gs => (buildOutcomes ks zs gs).map (Outcome.ok z g :: ·)
  | "l" :: ks, zs, gs => (buildOutcomes ks zs gs).map (Outcome.lessPoints :: ·)
  | "s" :: ks, zs, gs => (buildOutcomes ks zs gs).map (Outcome.singular :: ·)
  | _, _, _ => none

/-- split a flat list into rows of `n` entries -/
def chunkR (n : Nat) (l : List Rat) : List (List Rat) :=
  if n = 0 then [] else (List.range (l.length / n)).map fun k => (l.drop (k * n)).take n

def handleC07 : List String → Option String
  | ["find", "dense", row, maxd, n] => do
      let row ← parseRats row
      let maxd ← parseRat maxd.trimAscii.toString
      let n ← n.trimAscii.toString.toNat?
      some s!"ok|{fmtList toString (findClosestDense row maxd n)}"
  | ["find", "sparse", ds, idx, n] => do
      let ds ← parseRats ds
      let idx ← parseNats idx
      let n ← n.trimAscii.toString.toNat?
      some s!"ok|{fmtList toString (findClosestSparse (ds.zip idx) n)}"
  | ["solve", n, g, g0, v] => do
      let n ← n.trimAscii.toString.toNat?
      let g ← parseRats g
      let g0 ← parseRats g0
      let v ← parseRats v
      let ga := g.toArray
      let g0a := g0.toArray
      match krigeSolve n (fun i j => ga.getD (i * n + j) 0) (fun i => g0a.getD i 0) v with
      | none => some "ok|singular"
      | some r => some s!"ok|{fmtRat r.estimate}|{fmtRat r.variance}|{fmtRat r.mu}|{fmtList fmtRat r.weights}"
  | ["transform", maxd, minp, maxp, n, g, v, rows, g0s] => do
      let maxd ← parseRat maxd.trimAscii.toString
      let minp ← minp.trimAscii.toString.toNat?
      let maxp ← maxp.trimAscii.toString.toNat?
      let n ← n.trimAscii.toString.toNat?
      let ga := (← parseRats g).toArray
      let v ← parseRats v
      let rows := chunkR n (← parseRats rows)
      let g0s := chunkR n (← parseRats g0s)
      let st := krigeTransform maxd minp maxp (fun i j => ga.getD (i * n + j) 0) v (rows.zip g0s)
      some s!"ok|{fmtList fmtOptRat st.z}|{fmtList fmtOptRat st.sigma}|{st.noPoints}|{st.singular}"
  | ["loop", kinds, zs, gs] => do
      let zs ← parseRats zs
      let gs ← parseRats gs
      let os ← buildOutcomes (tokens kinds) zs gs
      let st := transformLoop os
      some s!"ok|{fmtList fmtOptRat st.z}|{fmtList fmtOptRat st.sigma}|{st.noPoints}|{st.singular}|{st.cursor}"
  | _ => none


def handleC17 : List String → Option String
  | ["jack", maxd, minp, maxp, n, d, g, v, sel] => do
      let maxd ← parseRat maxd.trimAscii.toString
      let minp ← minp.trimAscii.toString.toNat?
      let maxp ← maxp.trimAscii.toString.toNat?
      let n ← n.trimAscii.toString.toNat?
      let D := chunkR n (← parseRats d)
      let Gm := chunkR n (← parseRats g)
      let v ← parseRats v
      let sel ← parseNats sel
      let devs := jackknife maxd minp maxp D Gm v sel
      -- the neighbourhoods (indices into the full data set) for the harness's condition estimate
      let nbs := sel.map fun i =>
        (findClosestDense (deleteAt (D.getD i []) i) maxd maxp).map (skipIdx i)
      some s!"ok|{fmtList fmtOptRat devs}|{";".intercalate (nbs.map (fmtList toString))}"
  | ["score", devs] => do
      let d ← parseOptRats devs
      some s!"ok|{fmtOptRat (mseScore d)}|{fmtOptRat (maeScore d)}|{fmtOptRat (maeScoreDefect d)}"
  | ["delete", i, xs] => do
      let i ← i.trimAscii.toString.toNat?
      let xs ← parseRats xs
      some s!"ok|{fmtList fmtRat (deleteAt xs i)}"
  | _ => none


def fmtOptList (l : Option (List Rat)) : String :=
  match l with
  | none => "none"
  | some xs => fmtList fmtRat xs

def handleC04 : List String → Option String
  | ["views", kind, un, cof] => do
      let k ← match kind.trimAscii.toString with
        | "plain" => some Kind.plain | "shaped" => some Kind.shaped | _ => none
      let un := un.trimAscii.toString == "1"
      let cof ← parseRats cof
      let d := describeOf k un cof
      some s!"ok|{fmtRat d.range} {fmtRat d.sill} {fmtOptRat d.shape} {fmtRat d.nugget}|{fmtList fmtRat (parametersOf d)}|{fmtList fmtRat (rebuildCof d)}|{fmtOptList (callArgs k cof)}|{fmtOptList (callArgs k (rebuildCof d))}|{if layoutOK k un cof then 1 else 0}"
  | _ => none

def handleC05 : List String → Option String
  | ["filter", x, y, sg] => do
      let x ← parseRats x
      let y ← parseOptRats y
      let sg ← if sg.trimAscii.toString == "none" then some none else (parseRats sg).map some
      let r := nanFilter3 x y sg
      some s!"ok|{fmtList fmtRat r.1}|{fmtList fmtRat r.2.1}|{fmtOptList r.2.2}"
  | ["sigma", name, xs] => do
      let xs ← parseFloats xs
      let f ← match name.trimAscii.toString with
        | "linear" => some Gen.sigma_linearF | "exp" => some Gen.sigma_expF
        | "sqrt" => some Gen.sigma_sqrtF | "sq" => some Gen.sigma_sqF | _ => none
      some s!"ok|{fmtList fmtFloat (xs.map f)}"
  | ["bounds", names, un, mx, my] => do
      let un := un.trimAscii.toString == "1"
      let mx ← parseRat mx.trimAscii.toString
      let my ← parseRat my.trimAscii.toString
      let toks := boundsFor Gen.fitBoundsTable (tokens names) un
      some s!"ok|{fmtList fmtRat (toks.map (evalBTok mx my))}"
  | _ => none


def triples : List Float → List (Float × Float × Float)
  | a :: b :: c :: rest => (a, b, c) :: triples rest
  | _ => []

def handleC12 : List String → Option String
  | ["mask", model, par, data] => do
      let par ← parseFloats par
      let data ← parseFloats data
      match par with
      | [az, tol, bw] =>
        let f := match model.trimAscii.toString with
          | "compass" => some Gen.compassMaskF
          | "triangle" => some Gen.triangleMaskF
          | _ => none
        let f ← f
        let out := (triples data).map fun (sc, yd, d) =>
          let th := Gen.pairAngleF sc yd d
          (f az tol bw th d, th)
        some s!"ok|{fmtList (fun (p : Bool × Float) => if p.1 then "1" else "0") out}|{fmtList (fun (p : Bool × Float) => fmtFloat p.2) out}"
      | _ => none
  | _ => none


def sourceActW (alt : Bool) (s : Setting) (c : Cache) : Action :=
  if directional s then actOfTable Gen.directionalResets alt s c
  else actOfTable Gen.variogramResets alt s c

def parseSetting (t : String) : Option Setting :=
  Setting.all.find? fun s => s.setter == t

def parseRead : String → Option Read
  | "bins" => some .bins | "bin_count" => some .binCount | "experimental" => some .experimental
  | "parameters" => some .parameters | "transform" => some .transform | "diffs" => some .diffs
  | _ => none

def pattern (st : VState) : String :=
  String.join (Cache.all.map fun c => if (st.cache c).isSome then "1" else "0")

/-- stale (setting, cache) pairs of the filled caches -/
def staleOf (st : VState) (c : Cache) : List String :=
  match st.cache c with
  | none => []
  | some t => (Setting.all.filter fun s => deps c s && !t s).map fun s => s.setter

def handleC06 : List String → Option String
  | ["run", ops] => do
      let toks := tokens ops
      let rec go (st : VState) (ts : List String) (acc : List String) : Option (List String) :=
        match ts with
        | [] => some acc.reverse
        | t :: rest =>
          match t.splitOn ":" with
          | ["s", name] => do
              let alt := name.endsWith "!"
              let name := if alt then (name.dropEnd 1).toString else name
              let s ← parseSetting name
              let st' := doSet (sourceActW alt) st s
              go st' rest (s!"{pattern st'}" :: acc)
          | ["r", name] => do
              let r ← parseRead name
              let fresh := freshRead st r
              let st' := doRead st r
              let stale := ",".intercalate (staleOf st' r.target)
              go st' rest (s!"{pattern st'}:{if fresh then 1 else 0}:{stale}" :: acc)
          | _ => none
      let out ← go VState.init toks []
      some s!"ok|{" ".intercalate out}"
  | _ => none


def chunk {α} (n : Nat) (l : List α) : List (List α) :=
  if n = 0 then [] else (List.range (l.length / n)).map fun i => (l.drop (i * n)).take n

def handleC14 : List String → Option String
  | ["table", est, nT, vals, xe, xd, te, td] => do
      let nT ← nT.trimAscii.toString.toNat?
      let vals ← parseRats vals
      let xe ← parseRats xe
      let xd ← parseRats xd
      let te ← parseRats te
      let td ← parseRats td
      let f ← estimatorByName est.trimAscii.toString
      let v := chunk nT vals
      let D := stDiff v
      let xg := groupsOC xe xd
      let tg := groupsOC te td
      let tab := stExperimental f xe.length te.length xg tg D
      some s!"ok|{fmtList fmtOptRat tab}|{fmtList toString xg}|{fmtList toString tg}"
  | ["samples", xb, tb, z] => do
      let xb ← parseRats xb
      let tb ← parseRats tb
      let z ← parseOptRats z
      let s := stSamples xb tb z
      some s!"ok|{fmtList fmtRat (s.map (·.1))}|{fmtList fmtRat (s.map (·.2.1))}|{fmtList fmtRat (s.map (·.2.2))}"
  | _ => none


def handleC19 : List String → Option String
  | ["bounds", q, xs] => do
      let q ← parseRat q.trimAscii.toString
      let xs ← parseRats xs
      let b := bounds xs q
      let d := boundsDefect xs q
      some s!"ok|{fmtRat b.1} {fmtRat b.2.1} {fmtRat b.2.2}|{fmtRat d.1} {fmtRat d.2.1} {fmtRat d.2.2}"
  | ["targets", req] =>
      -- which interval matrices a call with the requested targets returns, in the order of the result list
      some s!"ok|{" ".intercalate (targetsOut Gen.propagateTargets (tokens req))}"
  | _ => none

end Skg
