import SkgVerif.Lemmas.Grouping
import SkgVerif.Lemmas.Classes
import SkgVerif.Lemmas.Pairs
import SkgVerif.Lemmas.CondIdx
import SkgVerif.Model.Estimators
import SkgVerif.Model.Pipeline
import SkgVerif.Lemmas.Edges
import SkgVerif.Lemmas.Quantile
import SkgVerif.Gen.EstimatorsExec
import SkgVerif.Gen.Tables
import SkgVerif.Lemmas.CressieReal
import SkgVerif.Gen.Source
import SkgVerif.Props.Transcribed.C01
/-!
# C01 — experimental variogram = estimator over exactly the pairs of each lag class

Property statements only (helper lemmas live in `Lemmas/`).  `edges` are the lag edges,
`(0 :: edges)[k]` is the lower edge of class `k` (`edge[-1] = 0`).
-/
namespace Skg

/-- class `k` is assigned iff `edge[k-1] ≤ d < edge[k]` -/
theorem C01_group_spec (edges : List Rat) (h : (0 :: edges).Pairwise (· ≤ ·)) (d : Rat)
    (hd : 0 ≤ d) (k : Nat) (hk : k < edges.length) :
    groupLoop edges d = (k : Int) ↔ ((0 :: edges)[k]'(by simp; omega) ≤ d ∧ d < edges[k]) := by
  constructor
  · intro hg
    rcases groupLoop_cases edges h d hd with ⟨k', hk', ha, hb, hg'⟩ | ⟨_, hg'⟩
    · have : k = k' := by rw [hg] at hg'; exact_mod_cast hg'
      subst this; exact ⟨ha, hb⟩
    · rw [hg] at hg'; omega
  · intro hin
    rcases groupLoop_cases edges h d hd with ⟨k', hk', ha, hb, hg'⟩ | ⟨hall, _⟩
    · have := interval_unique edges h d k k' hk hk' hin ⟨ha, hb⟩
      subst this; exact hg'
    · exact absurd (hall _ (List.getElem_mem hk)) (not_le.2 hin.2)

/-- a pair is in no class (−1) iff its distance is at or beyond every edge -/
theorem C01_group_none (edges : List Rat) (h : (0 :: edges).Pairwise (· ≤ ·)) (d : Rat)
    (hd : 0 ≤ d) : groupLoop edges d = -1 ↔ ∀ e ∈ edges, e ≤ d := by
  constructor
  · intro hg
    rcases groupLoop_cases edges h d hd with ⟨k', _, _, _, hg'⟩ | ⟨hall, _⟩
    · rw [hg] at hg'; omega
    · exact hall
  · intro hall
    rcases groupLoop_cases edges h d hd with ⟨k', hk', _, hb, _⟩ | ⟨_, hg'⟩
    · exact absurd (hall _ (List.getElem_mem hk')) (not_le.2 hb)
    · exact hg'

/-- every pair closer than the last edge is counted in exactly one class; no pair at or beyond
it is counted anywhere -/
theorem C01_partition (edges : List Rat) (h : (0 :: edges).Pairwise (· ≤ ·)) (d : Rat)
    (hd : 0 ≤ d) (hne : edges ≠ []) :
    (d < edges.getLast hne → ∃! k : Nat, k < edges.length ∧ groupLoop edges d = (k : Int)) ∧
    (edges.getLast hne ≤ d → groupLoop edges d = -1 ∧
        ∀ k : Nat, k < edges.length → groupLoop edges d ≠ (k : Int)) := by
  constructor
  · intro hlt
    rcases groupLoop_cases edges h d hd with ⟨k', hk', _, _, hg'⟩ | ⟨hall, _⟩
    · refine ⟨k', ⟨hk', hg'⟩, ?_⟩
      rintro y ⟨_, hy⟩
      rw [hg'] at hy; exact_mod_cast hy.symm
    · exact absurd (hall _ (List.getLast_mem hne)) (not_le.2 hlt)
  · intro hge
    have hall : ∀ e ∈ edges, e ≤ d := by
      intro e he
      have hp : edges.Pairwise (· ≤ ·) := (List.pairwise_cons.1 h).2
      obtain ⟨k, hk, rfl⟩ := List.getElem_of_mem he
      rw [List.getLast_eq_getElem] at hge
      refine le_trans ?_ hge
      rcases Nat.eq_or_lt_of_le (Nat.le_sub_one_of_lt hk) with e | l
      · simp [e]
      · exact (List.pairwise_iff_getElem.1 hp) k (edges.length - 1) hk (by omega) l
    have hg := (C01_group_none edges h d hd).2 hall
    refine ⟨hg, ?_⟩
    intro k _ hk; rw [hg] at hk; omega


/-- the reported pair count of class `k` is the number of distances with
`edge[k-1] ≤ d < edge[k]` -/
theorem C01_count (edges : List Rat) (h : (0 :: edges).Pairwise (· ≤ ·)) (ds : List Rat)
    (hpos : ∀ d ∈ ds, 0 ≤ d) (k : Nat) (hk : k < edges.length) :
    (binCount edges.length (groups edges ds))[k]'(by simp [binCount]; exact hk) =
      (ds.filter (fun d => inClass edges k d)).length := by
  simp only [binCount, List.getElem_map, List.getElem_range]
  exact count_spec edges h k hk ds hpos

/-- entry `k` of the experimental variogram is the estimator applied to exactly the
differences whose distance lies in class `k`; in particular it is the estimator's value on the
empty list (NaN for all four estimators, see `C01_empty_nan`) when the class is empty -/
theorem C01_experimental {α β} (est : List α → β) (edges : List Rat)
    (h : (0 :: edges).Pairwise (· ≤ ·)) (ds : List Rat) (xs : List α)
    (hpos : ∀ d ∈ ds, 0 ≤ d) (k : Nat) (hk : k < edges.length) :
    (experimental est edges.length (groups edges ds) xs)[k]'(by
        simp [experimental, lagClasses]; exact hk) =
      est (((ds.zip xs).filter (fun p => inClass edges k p.1)).map (·.2)) := by
  simp only [experimental, lagClasses, List.getElem_map, List.getElem_range]
  rw [lagClass_spec edges h k hk ds xs hpos]

/-- an empty class yields NaN (`none`) for every estimator -/
theorem C01_empty_nan : matheron [] = none ∧ dowd [] = none ∧ genton [] = none ∧
    cressieF [] = none := by
  refine ⟨rfl, by decide +kernel, rfl, rfl⟩

/-- the condensed order enumerates exactly the pairs `i < j < n`, each once -/
theorem C01_pairs_exact (n : Nat) :
    (pairs n).Nodup ∧ ∀ p : Nat × Nat, p ∈ pairs n ↔ (p.1 < p.2 ∧ p.2 < n) :=
  ⟨nodup_pairs n, mem_pairs n⟩

/-- the k-th pairwise difference and the k-th distance (any function of the pair) belong to
the same point pair -/
theorem C01_alignment (v : List Rat) (dist : Nat → Nat → Rat) (k : Nat)
    (hk : k < (pairs v.length).length) :
    ∃ i j, (pairs v.length)[k] = (i, j) ∧ i < j ∧ j < v.length ∧
      (pairDiffs v)[k]'(by simpa [pairDiffs] using hk) = absR (v.getD i 0 - v.getD j 0) ∧
      ((pairs v.length).map fun p => dist p.1 p.2)[k]'(by simpa using hk) = dist i j := by
  refine ⟨(pairs v.length)[k].1, (pairs v.length)[k].2, rfl, ?_, ?_, ?_, ?_⟩
  · exact ((mem_pairs _ _).1 (List.getElem_mem hk)).1
  · exact ((mem_pairs _ _).1 (List.getElem_mem hk)).2
  · simp [pairDiffs]
  · simp

/-- closed form of the alignment: the pair `(i, j)`, `i < j < n`, is entry
`n·i − i(i+1)/2 + (j − i − 1)` of the condensed vectors (distances and differences alike) -/
theorem C01_condensed_index (n i j : ℕ) (hij : i < j) (hj : j < n) :
    (pairs n)[condIdx n i j]? = some (i, j) := pairs_condIdx n i j hij hj

/-- non-vacuity: a concrete edge list / distance list meets the hypotheses and hits an edge -/
example : (0 :: [1, 2, 3]).Pairwise (· ≤ · : Rat → Rat → Prop) ∧
    groups [1, 2, 3] [0, 1, 5/2, 3, 7] = [0, 1, 2, -1, -1] := by
  refine ⟨by decide +kernel, by decide +kernel⟩


/-! ## Estimator formulas: the code (generated from `estimators.py`) equals the documentation -/

/-- Matheron as coded = `1/(2N) Σ x²`, NaN exactly on the empty class -/
theorem C01_matheron_doc (xs : List Rat) :
    matheron xs = if xs.isEmpty then none else some (Gen.matheronGen xs) := by
  unfold matheron Gen.matheronGen sumR
  split
  · rfl
  · congr 2
    congr 1
    apply List.map_congr_left
    intro t _
    exact (pow_two t).symm

/-- Cressie-Hawkins as coded (generated, over ℝ) = `(1/N Σ √x)^4 / (2 (0.457 + 0.494/N + 0.045/N²))` -/
theorem C01_cressie_doc (x : List ℝ) :
    Gen.cressieGenR x =
      ((1 / (x.length : ℝ)) * (x.map Real.sqrt).sum) ^ 4 /
        (2 * (457 / 1000 + (247 / 500) / (x.length : ℝ) + (9 / 200) / (x.length : ℝ) ^ 2)) ∧
    Gen.cressieGuards = ["n == 0"] :=
  ⟨cressieGenR_eq x, by decide⟩

theorem C01_matheron_guard : Gen.matheronGuards = ["x.size == 0"] := by decide

/-- Dowd as coded = `2.198 · median² / 2` -/
theorem C01_dowd_doc (xs : List Rat) : dowd xs = (median xs).map Gen.dowdGen := by
  unfold dowd Gen.dowdGen
  congr 1
  funext m
  norm_num
  ring

/-- Genton as coded: the `k/q` quantile of all pairwise differences of the class, constant
2.219, `k = binom(N/2+1, 2)` with the *unfloored* `N/2` (see `C01_genton_doc_partial`) -/
theorem C01_genton_code (xs : List Rat) :
    genton xs = if xs.length < 2 then none
      else some (Gen.gentonFinal (quantile (allAbsDiffs xs) (Gen.gentonKQ (xs.length : Rat)))) := by
  by_cases h2 : xs.length < 2
  · simp [genton, h2]
  · have e : (xs.length ≥ 500) ↔ ((xs.length : Rat) ≥ (500 : Rat)) := by
      constructor <;> intro h <;> exact_mod_cast h
    by_cases h500 : xs.length ≥ 500
    · simp only [genton, Gen.gentonFinal, Gen.gentonKQ, binom2, h2, h500, e.1 h500, if_true,
        if_false]
      congr 1; ring_nf
    · have : ¬ ((xs.length : Rat) ≥ (500 : Rat)) := fun h => h500 (e.2 h)
      simp only [genton, Gen.gentonFinal, Gen.gentonKQ, binom2, h2, h500, this, if_false]
      congr 1; ring_nf

theorem C01_genton_guard : Gen.gentonGuards = ["n < 2"] := by decide

/-- the coded and the documented Genton estimator agree for even class sizes … -/
theorem C01_genton_doc_partial (xs : List Rat) (heven : xs.length % 2 = 0) :
    genton xs = gentonDoc xs := by
  unfold genton gentonDoc
  have : (((xs.length / 2 : Nat) : Rat)) = (xs.length : Rat) / 2 := by
    obtain ⟨m, hm⟩ : ∃ m, xs.length = 2 * m := ⟨xs.length / 2, by omega⟩
    rw [hm]; simp
  simp only [this]

/-- … and differ for odd ones (D15): N = 3, the coded quantile level is 0.625 instead of 1/3 -/
theorem C01_genton_doc_counterexample : genton [0, 1, 3] ≠ gentonDoc [0, 1, 3] := by
  decide +kernel


/-- the whole pipeline (`variogramE2E`: maxlag resolution, clipping, `even` edges, grouping,
counting, estimator per class) for any data set with a positive effective maximum lag: `nl`
classes; class `k` collects exactly the pairs with `edge[k-1] ≤ d < edge[k]`, its count is their
number, its semivariance the estimator over their `|v_i − v_j|`, each difference belonging to the
same point pair as its distance (`C01_alignment`) -/
theorem C01_pipeline_even (est : List Rat → Option Rat) (nl : ℕ) (hnl : 0 < nl) (req : MaxlagReq)
    (ds v : List Rat) (hpos : ∀ d ∈ ds, 0 ≤ d)
    (hm : 0 < effMax (resolveMaxlag req ds) ds) :
    let r := variogramE2E est .even nl req ds v
    r.edges.length = nl ∧ r.counts.length = nl ∧ r.exp.length = nl ∧
    r.edges.getLast? = some (effMax (resolveMaxlag req ds) ds) ∧
    ∀ k (hk : k < nl),
      r.counts[k]? = some (ds.filter (fun d => inClass r.edges k d)).length ∧
      r.exp[k]? = some (est (((ds.zip (pairDiffs v)).filter
          (fun p => inClass r.edges k p.1)).map (·.2))) := by
  intro r
  obtain ⟨hlen, _, hsorted, _, hlast, _⟩ := evenEdges_spec nl _ hnl hm
  have hel : r.edges.length = nl := hlen
  have hcl : r.counts.length = nl := by
    show (binCount r.edges.length r.groups).length = nl
    simp [binCount, hel]
  have hxl : r.exp.length = nl := by
    show (experimental est r.edges.length r.groups (pairDiffs v)).length = nl
    simp [experimental, lagClasses, hel]
  refine ⟨hel, hcl, hxl, hlast, ?_⟩
  intro k hk
  have hk' : k < r.edges.length := by rw [hel]; exact hk
  constructor
  · have := C01_count r.edges hsorted ds hpos k hk'
    rw [List.getElem?_eq_getElem (by rw [hcl]; exact hk)]
    exact congrArg some this
  · have := C01_experimental est r.edges hsorted ds (pairDiffs v) hpos k hk'
    rw [List.getElem?_eq_getElem (by rw [hxl]; exact hk)]
    exact congrArg some this

/-- the lag-class loop in the source (`Variogram._calc_groups`) uses the half-open intervals the
model `groupAux` transcribes: `d >= lo & d < hi` over `zip([0] + edges, edges)`, start value −1 -/
theorem C01_source_loop :
    Gen.groupLoopLower = ">=" ∧ Gen.groupLoopUpper = "<" ∧
    Gen.groupLoopIter = "enumerate(zip([0] + list(bin_edges), bin_edges))" ∧
    Gen.groupLoopInit = ["np.ones(len(d), dtype=int) * -1"] := by decide

/-- the pipeline statements as they are in the source now: `lag_classes` yields `diffs[groups == i]` for `i` over the lag edges, the differences are `pdist([[v,0]])` (dense) / `|Vrow − Vcol|` over the stored triangle (sparse), multiplied by the co-variable's for cross-variograms, and the estimator is mapped over the classes -/
theorem C01_source_pipeline : Gen.pipelineSource =
    [
    ("classes_loop", "range(len(self.bins))"),
    ("class_members", "(yield diffs[np.where(groups == i)])"),
    ("diffs", "diffs = self.pairwise_diffs"),
    ("groups", "groups = self.lag_groups()"),
    ("dense_differences", "pdist(np.column_stack((values, np.zeros(len(values)))), metric='euclidean')"),
    ("sparse_differences", "return np.abs(Vrow.data - Vcol.data)"),
    ("cross_product", "diffs *= co_diffs"),
    ("cache", "self._diff = diffs"),
    ("estimator_map", "np.fromiter(map(mapper, self.lag_classes()), dtype=float) | map(mapper, self.lag_classes())")] := by rfl

end Skg
