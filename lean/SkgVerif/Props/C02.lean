import SkgVerif.Lemmas.Edges
import SkgVerif.Lemmas.Median
import SkgVerif.Gen.Tables
import SkgVerif.Props.Transcribed.C02
/-!
# C02 — lag edges are well-formed and honour n_lags and maxlag
-/
namespace Skg

/-- `even`: exactly `n` edges, strictly increasing, equal widths `m/n`, ending exactly at the
effective maximum lag `m` -/
theorem C02_even (n : ℕ) (m : Rat) (hn : 0 < n) (hm : 0 < m) :
    (evenEdges n m).length = n ∧
    (evenEdges n m).Pairwise (· < ·) ∧
    (0 :: evenEdges n m).Pairwise (· ≤ ·) ∧
    (∀ i (hi : i < (evenEdges n m).length),
        (evenEdges n m)[i] - (0 :: evenEdges n m)[i]'(by simp; omega) = m / n) ∧
    (evenEdges n m).getLast? = some m ∧
    (∀ e ∈ evenEdges n m, 0 < e ∧ e ≤ m) :=
  evenEdges_spec n m hn hm

/-- NumPy's linear-interpolation quantile is monotone in the level and stays within the data -/
theorem C02_quantile_mono (ds : List Rat) (hne : ds ≠ []) {q₁ q₂ : Rat} (h0 : 0 ≤ q₁)
    (h12 : q₁ ≤ q₂) : quantile ds q₁ ≤ quantile ds q₂ := by
  unfold quantile
  have hne' : sortR ds ≠ [] := by
    intro h; apply hne; have := sortR_length ds; rw [h] at this
    exact List.eq_nil_of_length_eq_zero this.symm
  exact quantileSorted_mono _ (sortR_pairwise ds) hne' h0 h12

theorem C02_quantile_within (ds : List Rat) (hne : ds ≠ []) {q : Rat} (h0 : 0 ≤ q) :
    (∃ a ∈ ds, a ≤ quantile ds q) ∧ (∃ b ∈ ds, quantile ds q ≤ b) := by
  unfold quantile
  have hne' : sortR ds ≠ [] := by
    intro h; apply hne; have := sortR_length ds; rw [h] at this
    exact List.eq_nil_of_length_eq_zero this.symm
  obtain ⟨h1, h2⟩ := quantileSorted_bounds _ (sortR_pairwise ds) hne' h0 (q := q)
  exact ⟨⟨_, (mem_sortR ds _).1 (nodes_mem _ hne' 0), h1⟩,
         ⟨_, (mem_sortR ds _).1 (nodes_mem _ hne' _), h2⟩⟩

/-- `uniform`: `n` non-decreasing edges, the i/n quantiles of the distances within the effective
maximum lag, none exceeding it, the last one being the largest such distance -/
theorem C02_uniform (n : ℕ) (m : Rat) (ds : List Rat) (hn : 0 < n)
    (hne : ds.filter (· ≤ m) ≠ []) :
    (uniformEdges n m ds).length = n ∧
    (uniformEdges n m ds).Pairwise (· ≤ ·) ∧
    (∀ i (hi : i < (uniformEdges n m ds).length), (uniformEdges n m ds)[i] =
        quantile (ds.filter (· ≤ m)) (((i : Rat) + 1) / n)) ∧
    (∀ e ∈ uniformEdges n m ds, e ≤ m ∧ ∃ a ∈ ds, a ≤ e) := by
  have hn' : (0 : Rat) < (n : Rat) := by exact_mod_cast hn
  refine ⟨uniformEdges_length n m ds, ?_, ?_, ?_⟩
  · unfold uniformEdges
    apply pairwise_map_range
    intro i j hij _
    have : (i : Rat) < (j : Rat) := by exact_mod_cast hij
    apply C02_quantile_mono _ hne
    · positivity
    · apply div_le_div_of_nonneg_right _ hn'.le; linarith
  · intro i hi
    simp [uniformEdges, quantile]
  · intro e he
    unfold uniformEdges at he
    obtain ⟨i, _, rfl⟩ := List.mem_map.1 he
    have hq : (0 : Rat) ≤ ((i : Rat) + 1) / (n : Rat) := by positivity
    obtain ⟨⟨a, ha, hae⟩, ⟨b, hb, heb⟩⟩ := C02_quantile_within _ hne hq
    constructor
    · have : b ≤ m := by simpa using (List.mem_filter.1 hb).2
      exact le_trans heb this
    · exact ⟨a, (List.mem_filter.1 ha).1, hae⟩

/-- clustering binnings (k-means, ward): mid-points of `[0] + sorted centres` are as many as
the centres, non-decreasing, non-negative and never exceed the largest centre's bound `m` -/
theorem C02_midpoints (cs : List Rat) (m : Rat) (hs : (0 :: cs).Pairwise (· ≤ ·))
    (hle : ∀ c ∈ cs, c ≤ m) (hm : 0 ≤ m) :
    (midpointEdges 0 cs).length = cs.length ∧
    (0 :: midpointEdges 0 cs).Pairwise (· ≤ ·) ∧
    (∀ e ∈ midpointEdges 0 cs, e ≤ m) := by
  obtain ⟨h1, h2, _⟩ := midpointEdges_spec cs 0 m (mono_of_pairwise cs 0 hs) hle hm
  exact ⟨midpointEdges_length cs 0, pairwise_of_mono _ 0 h1, h2⟩

/-- rule-based binnings ('sturges', 'scott', 'fd', 'sqrt', 'doane'): as many edges as the derived
number of classes, non-decreasing, above the smallest and ending exactly at the largest distance
within the effective maximum lag -/
theorem C02_rule_based (lo hi : Rat) (k : ℕ) (hk : 0 < k) (h : lo ≤ hi) :
    (linspaceEdges lo hi k).length = k ∧
    (linspaceEdges lo hi k).Pairwise (· ≤ ·) ∧
    (∀ e ∈ linspaceEdges lo hi k, lo ≤ e ∧ e ≤ hi) ∧
    (linspaceEdges lo hi k).getLast? = some hi := by
  have hk' : (0 : Rat) < (k : Rat) := by exact_mod_cast hk
  have hd : 0 ≤ hi - lo := sub_nonneg.2 h
  refine ⟨by simp [linspaceEdges], ?_, ?_, ?_⟩
  · unfold linspaceEdges
    apply pairwise_map_range
    intro i j hij _
    have : (i : Rat) < (j : Rat) := by exact_mod_cast hij
    have : (hi - lo) * ((i : Rat) + 1) / k ≤ (hi - lo) * ((j : Rat) + 1) / k := by
      apply div_le_div_of_nonneg_right _ hk'.le
      nlinarith
    linarith
  · intro e he
    unfold linspaceEdges at he
    obtain ⟨i, hi', rfl⟩ := List.mem_map.1 he
    have hi'' : ((i : Rat) + 1) ≤ (k : Rat) := by
      have := List.mem_range.1 hi'
      exact_mod_cast this
    have h0 : 0 ≤ (hi - lo) * ((i : Rat) + 1) / k := by positivity
    have h1 : (hi - lo) * ((i : Rat) + 1) / k ≤ hi - lo := by
      rw [div_le_iff₀ hk']; nlinarith
    constructor <;> linarith
  · unfold linspaceEdges
    rw [List.getLast?_map, List.getLast?_range]
    have : k ≠ 0 := by omega
    simp only [this, if_false, Option.map_some]
    congr 1
    have h1 : 1 ≤ k := hk
    rw [Nat.cast_sub h1]; push_cast; field_simp; ring

/-- maxlag resolution: unset, ratio of the largest distance, absolute, median, mean -/
theorem C02_resolve (ds : List Rat) (v : Rat) :
    resolveMaxlag .none ds = none ∧
    (v < 1 → resolveMaxlag (.num v) ds = some (v * maxR ds)) ∧
    (1 ≤ v → resolveMaxlag (.num v) ds = some v) ∧
    resolveMaxlag .median ds = median ds ∧
    resolveMaxlag .mean ds = some (meanR ds) := by
  refine ⟨rfl, ?_, ?_, rfl, rfl⟩
  · intro h; simp [resolveMaxlag, h]
  · intro h; simp [resolveMaxlag, not_lt.2 h]

/-- `maxlag='median'` resolves to the 50th percentile of the distances, which lies within the
data: the effective maximum lag is that median itself -/
theorem C02_resolve_median (ds : List Rat) (hne : ds ≠ []) :
    ∃ m, resolveMaxlag .median ds = some m ∧ m = quantile ds (1 / 2) ∧ effMax (some m) ds = m := by
  refine ⟨quantile ds (1 / 2), ?_, rfl, ?_⟩
  · simp only [resolveMaxlag]; exact median_eq_quantile_half ds hne
  · obtain ⟨_, ⟨b, hb, hqb⟩⟩ := C02_quantile_within ds hne (q := 1 / 2) (by norm_num)
    have : quantile ds (1 / 2) ≤ maxR ds := le_trans hqb (le_maxR ds b hb)
    simp only [effMax, gt_iff_lt, not_lt.2 this, if_false]

/-- the effective maximum lag never exceeds the largest distance, equals the requested value
whenever that is not larger, and the largest distance when nothing is requested -/
theorem C02_effMax (ds : List Rat) (m : Rat) :
    effMax none ds = maxR ds ∧ effMax (some m) ds ≤ maxR ds ∧
    (m ≤ maxR ds → effMax (some m) ds = m) ∧ (maxR ds < m → effMax (some m) ds = maxR ds) ∧
    (∀ d ∈ ds, d ≤ maxR ds) := by
  refine ⟨rfl, ?_, ?_, ?_, fun d hd => le_maxR ds d hd⟩
  · simp only [effMax]; split_ifs with h
    · exact le_refl _
    · exact not_lt.1 h
  · intro h; unfold effMax; simp [not_lt.2 h]
  · intro h; unfold effMax; simp [h]

/-- the maxlag setter as it is in the source (generated) is the documented resolution -/
theorem C02_source_resolve (req : MaxlagReq) (ds : List Rat) :
    Gen.resolveGen req ds = resolveMaxlag req ds := by
  cases req <;> rfl

/-- a maximum lag requested as 'median' / 'mean' is that distance itself, whatever its magnitude -
in particular it is not re-read as a ratio of the largest distance when it is below 1 (normalised
coordinates); only a *number* below 1 is a ratio -/
theorem C02_string_maxlag (ds : List Rat) (v : Rat) :
    Gen.resolveGen .median ds = median ds ∧ Gen.resolveGen .mean ds = some (meanR ds) ∧
    (v < 1 → Gen.resolveGen (.num v) ds = some (v * maxR ds)) ∧
    (1 ≤ v → Gen.resolveGen (.num v) ds = some v) := by
  refine ⟨rfl, rfl, fun h => by simp [Gen.resolveGen, h], fun h => by simp [Gen.resolveGen, not_lt.2 h]⟩

/-- non-vacuity: distances in the unit square - the median 2/5 stays 2/5 (as a ratio it would be 6/25) -/
example : Gen.resolveGen .median [1/5, 2/5, 3/5] = some (2/5) ∧
    Gen.resolveGen (.num (2/5)) [1/5, 2/5, 3/5] = some (6/25) := by decide +kernel

/-- every binning function clips maxlag against the largest distance with the documented
statement and (where it uses the distances) selects those within it; `even` / `uniform` return the
documented constructions -/
theorem C02_source_binning :
    let clip := "if maxlag is None or maxlag > np.nanmax(distances):\n    maxlag = np.nanmax(distances)"
    Gen.binningClipAndFilter =
      [("even_width_lags", clip, ""),
       ("uniform_count_lags", clip, "d = distances[np.where(distances <= maxlag)]"),
       ("auto_derived_lags", clip, "d = distances[np.where(distances <= maxlag)]"),
       ("kmeans", clip, "d = np.sort(distances[np.where(distances <= maxlag)])"),
       ("ward", clip, "d = np.sort(distances[np.where(distances <= maxlag)])")] ∧
    Gen.evenReturn = "return (np.linspace(0, maxlag, n + 1)[1:], None)" ∧
    Gen.uniformReturn =
      "return (np.fromiter((np.nanpercentile(d, i / n * 100) for i in range(1, n + 1)), dtype=float), None)" := by
  decide

/-- non-vacuity -/
example : evenEdges 4 10 = [5/2, 5, 15/2, 10] ∧
    uniformEdges 2 5 [1, 2, 3, 4, 9] = [5/2, 4] ∧ midpointEdges 0 [2, 4, 8] = [1, 3, 6] := by
  refine ⟨by decide +kernel, by decide +kernel, by decide +kernel⟩

end Skg
