import SkgVerif.Lemmas.ModelsReal
import SkgVerif.Gen.ModelsExec
import SkgVerif.Model.SumModels
import SkgVerif.Lemmas.SumModels
import SkgVerif.Props.Transcribed.C03
/-!
# C03 — theoretical models are valid bounded, monotone variogram functions

All statements are about `Skg.Gen.*`, the definitions **generated from `skgstat/models.py`**
on every run.  `r > 0` (effective range), `c0 ≥ 0` (sill), `b` nugget, `s > 0` shape.
-/
open Real Filter Topology

namespace Skg

/-! ## spherical -/

theorem C03_spherical_zero (r c0 b : ℝ) (hr : 0 < r) : Gen.spherical 0 r c0 b = b := by
  rw [spherical_eq]; simp [hr.le, sphShape]

theorem C03_spherical_mono (r c0 b : ℝ) (hr : 0 < r) (hc : 0 ≤ c0) {h₁ h₂ : ℝ} (h0 : 0 ≤ h₁)
    (h12 : h₁ ≤ h₂) : Gen.spherical h₁ r c0 b ≤ Gen.spherical h₂ r c0 b := by
  rw [spherical_eq, spherical_eq]
  have hx : 0 ≤ h₁ / r := div_nonneg h0 hr.le
  split_ifs with ha hb hb
  · exact affine_mono hc (sphShape_mono hx (div_le_div_of_nonneg_right h12 hr.le) ((div_le_one hr).2 hb))
  · have := sphShape_le_one hx ((div_le_one hr).2 ha)
    nlinarith [mul_le_mul_of_nonneg_left this hc]
  · exfalso; linarith
  · exact le_refl _

theorem C03_spherical_bounds (r c0 b : ℝ) (hr : 0 < r) (hc : 0 ≤ c0) {h : ℝ} (h0 : 0 ≤ h) :
    b ≤ Gen.spherical h r c0 b ∧ Gen.spherical h r c0 b ≤ b + c0 := by
  rw [spherical_eq]
  split_ifs with ha
  · have hx : 0 ≤ h / r := div_nonneg h0 hr.le
    have hx1 : h / r ≤ 1 := (div_le_one hr).2 ha
    exact affine_bounds hc (sphShape_nonneg hx hx1) (sphShape_le_one hx hx1)
  · exact ⟨by linarith, le_refl _⟩

/-- exactly the sill at and beyond the effective range -/
theorem C03_spherical_effrange (r c0 b : ℝ) (hr : 0 < r) {h : ℝ} (hh : r ≤ h) :
    Gen.spherical h r c0 b = b + c0 := by
  rw [spherical_eq]
  split_ifs with ha
  · have : h = r := le_antisymm ha hh
    subst this
    rw [div_self hr.ne']; unfold sphShape; ring
  · rfl

theorem C03_spherical_limit (r c0 b : ℝ) (hr : 0 < r) :
    Tendsto (fun h => Gen.spherical h r c0 b) atTop (𝓝 (b + c0)) := by
  apply tendsto_const_nhds.congr'
  filter_upwards [eventually_ge_atTop r] with h hh
  exact (C03_spherical_effrange r c0 b hr hh).symm

theorem C03_spherical_nugget_additive (h r c0 b : ℝ) :
    Gen.spherical h r c0 b = Gen.spherical h r c0 0 + b := by
  rw [spherical_eq, spherical_eq]; split_ifs <;> ring

/-! ## exponential -/

theorem C03_exponential_zero (r c0 b : ℝ) : Gen.exponential 0 r c0 b = b := by
  rw [exponential_eq]; simp

theorem C03_exponential_mono (r c0 b : ℝ) (hr : 0 < r) (hc : 0 ≤ c0) {h₁ h₂ : ℝ}
    (h12 : h₁ ≤ h₂) : Gen.exponential h₁ r c0 b ≤ Gen.exponential h₂ r c0 b := by
  rw [exponential_eq, exponential_eq]
  have h3 : 0 < r / 3 := by positivity
  exact affine_mono hc (one_sub_exp_neg_mono (div_le_div_of_nonneg_right h12 h3.le))

theorem C03_exponential_bounds (r c0 b : ℝ) (hr : 0 < r) (hc : 0 ≤ c0) {h : ℝ} (h0 : 0 ≤ h) :
    b ≤ Gen.exponential h r c0 b ∧ Gen.exponential h r c0 b ≤ b + c0 := by
  rw [exponential_eq]
  have ht : 0 ≤ h / (r / 3) := by positivity
  exact affine_bounds hc (one_sub_exp_neg_bounds ht).1 (one_sub_exp_neg_bounds ht).2

/-- at least 95 % of the sill at the effective range -/
theorem C03_exponential_effrange (r c0 b : ℝ) (hr : 0 < r) (hc : 0 ≤ c0) :
    b + 0.95 * c0 ≤ Gen.exponential r r c0 b := by
  rw [exponential_eq]
  have h1 : r / (r / 3) = 3 := by field_simp
  rw [h1]
  nlinarith [mul_le_mul_of_nonneg_left exp_neg_three_le hc]

theorem C03_exponential_limit (r c0 b : ℝ) (hr : 0 < r) :
    Tendsto (fun h => Gen.exponential h r c0 b) atTop (𝓝 (b + c0)) := by
  have h3 : 0 < r / 3 := by positivity
  have h1 : Tendsto (fun h : ℝ => h / (r / 3)) atTop atTop := tendsto_id.atTop_div_const h3
  have h2 : Tendsto (fun h : ℝ => Real.exp (-(h / (r / 3)))) atTop (𝓝 0) :=
    Real.tendsto_exp_neg_atTop_nhds_zero.comp h1
  have h4 : Tendsto (fun h : ℝ => b + c0 * (1 - Real.exp (-(h / (r / 3))))) atTop (𝓝 (b + c0 * (1 - 0))) :=
    (tendsto_const_nhds.sub h2).const_mul c0 |>.const_add b
  simpa [exponential_eq] using h4

theorem C03_exponential_nugget_additive (h r c0 b : ℝ) :
    Gen.exponential h r c0 b = Gen.exponential h r c0 0 + b := by
  rw [exponential_eq, exponential_eq]; ring

/-! ## gaussian -/

theorem C03_gaussian_zero (r c0 b : ℝ) : Gen.gaussian 0 r c0 b = b := by
  rw [gaussian_eq]; simp

theorem C03_gaussian_mono (r c0 b : ℝ) (hr : 0 < r) (hc : 0 ≤ c0) {h₁ h₂ : ℝ} (h0 : 0 ≤ h₁)
    (h12 : h₁ ≤ h₂) : Gen.gaussian h₁ r c0 b ≤ Gen.gaussian h₂ r c0 b := by
  rw [gaussian_eq, gaussian_eq]
  have ha : 0 < (r / 2) ^ 2 := by positivity
  have hsq : h₁ ^ 2 ≤ h₂ ^ 2 := pow_le_pow_left₀ h0 h12 2
  exact affine_mono hc (one_sub_exp_neg_mono (div_le_div_of_nonneg_right hsq ha.le))

theorem C03_gaussian_bounds (r c0 b : ℝ) (hr : 0 < r) (hc : 0 ≤ c0) (h : ℝ) :
    b ≤ Gen.gaussian h r c0 b ∧ Gen.gaussian h r c0 b ≤ b + c0 := by
  rw [gaussian_eq]
  have ht : 0 ≤ h ^ 2 / (r / 2) ^ 2 := by positivity
  exact affine_bounds hc (one_sub_exp_neg_bounds ht).1 (one_sub_exp_neg_bounds ht).2

theorem C03_gaussian_effrange (r c0 b : ℝ) (hr : 0 < r) (hc : 0 ≤ c0) :
    b + 0.95 * c0 ≤ Gen.gaussian r r c0 b := by
  rw [gaussian_eq]
  have h1 : r ^ 2 / (r / 2) ^ 2 = 4 := by field_simp; ring
  rw [h1]
  nlinarith [mul_le_mul_of_nonneg_left exp_neg_four_le hc]

theorem C03_gaussian_limit (r c0 b : ℝ) (hr : 0 < r) :
    Tendsto (fun h => Gen.gaussian h r c0 b) atTop (𝓝 (b + c0)) := by
  have ha : 0 < (r / 2) ^ 2 := by positivity
  have h1 : Tendsto (fun h : ℝ => h ^ 2 / (r / 2) ^ 2) atTop atTop :=
    (tendsto_pow_atTop (by norm_num)).atTop_div_const ha
  have h2 : Tendsto (fun h : ℝ => Real.exp (-(h ^ 2 / (r / 2) ^ 2))) atTop (𝓝 0) :=
    Real.tendsto_exp_neg_atTop_nhds_zero.comp h1
  have h4 : Tendsto (fun h : ℝ => b + c0 * (1 - Real.exp (-(h ^ 2 / (r / 2) ^ 2)))) atTop
      (𝓝 (b + c0 * (1 - 0))) := (tendsto_const_nhds.sub h2).const_mul c0 |>.const_add b
  simpa [gaussian_eq] using h4

theorem C03_gaussian_nugget_additive (h r c0 b : ℝ) :
    Gen.gaussian h r c0 b = Gen.gaussian h r c0 0 + b := by
  rw [gaussian_eq, gaussian_eq]; ring

/-! ## cubic -/

theorem C03_cubic_zero (r c0 b : ℝ) (hr : 0 < r) : Gen.cubic 0 r c0 b = b := by
  rw [cubic_eq]; simp [hr, cubShape]

theorem C03_cubic_mono (r c0 b : ℝ) (hr : 0 < r) (hc : 0 ≤ c0) {h₁ h₂ : ℝ} (h0 : 0 ≤ h₁)
    (h12 : h₁ ≤ h₂) : Gen.cubic h₁ r c0 b ≤ Gen.cubic h₂ r c0 b := by
  rw [cubic_eq, cubic_eq]
  have hx : 0 ≤ h₁ / r := div_nonneg h0 hr.le
  split_ifs with ha hb hb
  · exact affine_mono hc (cubShape_mono hx (div_le_div_of_nonneg_right h12 hr.le) ((div_le_one hr).2 hb.le))
  · have := (cubShape_bounds hx ((div_le_one hr).2 ha.le)).2
    nlinarith [mul_le_mul_of_nonneg_left this hc]
  · exfalso; linarith
  · exact le_refl _

theorem C03_cubic_bounds (r c0 b : ℝ) (hr : 0 < r) (hc : 0 ≤ c0) {h : ℝ} (h0 : 0 ≤ h) :
    b ≤ Gen.cubic h r c0 b ∧ Gen.cubic h r c0 b ≤ b + c0 := by
  rw [cubic_eq]
  split_ifs with ha
  · have hx : 0 ≤ h / r := div_nonneg h0 hr.le
    have hb := cubShape_bounds hx ((div_le_one hr).2 ha.le)
    exact affine_bounds hc hb.1 hb.2
  · exact ⟨by linarith, le_refl _⟩

theorem C03_cubic_effrange (r c0 b : ℝ) {h : ℝ} (hh : r ≤ h) : Gen.cubic h r c0 b = b + c0 := by
  rw [cubic_eq]; simp [not_lt.2 hh]

theorem C03_cubic_limit (r c0 b : ℝ) :
    Tendsto (fun h => Gen.cubic h r c0 b) atTop (𝓝 (b + c0)) := by
  apply tendsto_const_nhds.congr'
  filter_upwards [eventually_ge_atTop r] with h hh
  exact (C03_cubic_effrange r c0 b hh).symm

theorem C03_cubic_nugget_additive (h r c0 b : ℝ) :
    Gen.cubic h r c0 b = Gen.cubic h r c0 0 + b := by
  rw [cubic_eq, cubic_eq]; split_ifs <;> ring

/-! ## stable -/

theorem C03_stable_zero (r c0 s b : ℝ) : Gen.stable 0 r c0 s b = b := by
  rw [stable_eq]; simp

theorem C03_stable_bounds (r c0 s b : ℝ) (hr : 0 < r) (hc : 0 ≤ c0) {h : ℝ} (h0 : 0 ≤ h) :
    b ≤ Gen.stable h r c0 s b ∧ Gen.stable h r c0 s b ≤ b + c0 := by
  rw [stable_eq]
  split_ifs
  · exact ⟨le_refl _, by linarith⟩
  · have ht : 0 ≤ (h / (r / (3:ℝ) ^ (1 / s))) ^ s :=
      Real.rpow_nonneg (div_nonneg h0 (stable_scale_pos r s hr).le) _
    exact affine_bounds hc (one_sub_exp_neg_bounds ht).1 (one_sub_exp_neg_bounds ht).2

theorem C03_stable_mono (r c0 s b : ℝ) (hr : 0 < r) (hc : 0 ≤ c0) (hs : 0 < s) {h₁ h₂ : ℝ}
    (h0 : 0 ≤ h₁) (h12 : h₁ ≤ h₂) : Gen.stable h₁ r c0 s b ≤ Gen.stable h₂ r c0 s b := by
  by_cases e1 : h₁ = 0
  · subst e1
    rw [C03_stable_zero]
    exact (C03_stable_bounds r c0 s b hr hc (le_trans h0 h12)).1
  · have e2 : h₂ ≠ 0 := fun e => e1 (le_antisymm (e ▸ h12) h0)
    rw [stable_eq, stable_eq]
    simp only [e1, e2, if_false]
    have ha := stable_scale_pos r s hr
    have : (h₁ / (r / (3:ℝ) ^ (1 / s))) ^ s ≤ (h₂ / (r / (3:ℝ) ^ (1 / s))) ^ s :=
      Real.rpow_le_rpow (div_nonneg h0 ha.le) (div_le_div_of_nonneg_right h12 ha.le) hs.le
    exact affine_mono hc (one_sub_exp_neg_mono this)

theorem C03_stable_effrange (r c0 s b : ℝ) (hr : 0 < r) (hc : 0 ≤ c0) (hs : 0 < s) :
    b + 0.95 * c0 ≤ Gen.stable r r c0 s b := by
  rw [stable_eq]
  simp only [hr.ne', if_false]
  rw [stable_exponent_at_range r s hr hs]
  nlinarith [mul_le_mul_of_nonneg_left exp_neg_three_le hc]

theorem C03_stable_limit (r c0 s b : ℝ) (hr : 0 < r) (hs : 0 < s) :
    Tendsto (fun h => Gen.stable h r c0 s b) atTop (𝓝 (b + c0)) := by
  have ha := stable_scale_pos r s hr
  have h1 : Tendsto (fun h : ℝ => h / (r / (3:ℝ) ^ (1 / s))) atTop atTop := tendsto_id.atTop_div_const ha
  have h1' : Tendsto (fun h : ℝ => (h / (r / (3:ℝ) ^ (1 / s))) ^ s) atTop atTop :=
    (tendsto_rpow_atTop hs).comp h1
  have h2 : Tendsto (fun h : ℝ => Real.exp (-((h / (r / (3:ℝ) ^ (1 / s))) ^ s))) atTop (𝓝 0) :=
    Real.tendsto_exp_neg_atTop_nhds_zero.comp h1'
  have h4 : Tendsto (fun h : ℝ => b + c0 * (1 - Real.exp (-((h / (r / (3:ℝ) ^ (1 / s))) ^ s)))) atTop
      (𝓝 (b + c0 * (1 - 0))) := (tendsto_const_nhds.sub h2).const_mul c0 |>.const_add b
  have h5 : Tendsto (fun h : ℝ => b + c0 * (1 - Real.exp (-((h / (r / (3:ℝ) ^ (1 / s))) ^ s)))) atTop
      (𝓝 (b + c0)) := by simpa using h4
  apply h5.congr'
  filter_upwards [eventually_gt_atTop 0] with h hh
  rw [stable_eq]; simp [hh.ne']

theorem C03_stable_nugget_additive (h r c0 s b : ℝ) :
    Gen.stable h r c0 s b = Gen.stable h r c0 s 0 + b := by
  rw [stable_eq, stable_eq]; split_ifs <;> ring

/-! ## matérn (partial: Mathlib has no modified Bessel function `K_ν`) -/

/-- nugget at lag 0 -/
theorem C03_matern_zero (Gam : ℝ → ℝ) (Kv : ℝ → ℝ → ℝ) (r c0 s b : ℝ) :
    Gen.matern Gam Kv 0 r c0 s b = b := by
  unfold Gen.matern; simp

/-- the Matérn model is `b + c0·(1 − g(x))` with `x = 2h√s/(r/2)·½`-scaled lag and
`g(x) = 2/Γ(s) · (x)^s · K_s(2x)`; monotonicity / bounds / 90 % reduce to the corresponding
facts about `g` (hypotheses — not proved here) -/
theorem C03_matern_reduces_to_partial (Gam : ℝ → ℝ) (Kv : ℝ → ℝ → ℝ) (r c0 s b : ℝ) (hc : 0 ≤ c0)
    (g : ℝ → ℝ) (hg : ∀ x, g x = 2 / Gam s * (x ^ s) * Kv s (2 * x))
    (g_range : ∀ x, 0 < x → 0 ≤ g x ∧ g x ≤ 1)
    (g_anti : ∀ x y, 0 < x → x ≤ y → g y ≤ g x) {h₁ h₂ : ℝ} (h0 : 0 < h₁) (h12 : h₁ ≤ h₂)
    (hr : 0 < r) (hs : 0 < s) :
    (b ≤ Gen.matern Gam Kv h₁ r c0 s b ∧ Gen.matern Gam Kv h₁ r c0 s b ≤ b + c0) ∧
    Gen.matern Gam Kv h₁ r c0 s b ≤ Gen.matern Gam Kv h₂ r c0 s b := by
  have hsq : 0 < Real.sqrt s := Real.sqrt_pos.2 hs
  have hx : ∀ h, 0 < h → 0 < h * Real.sqrt s / (r / 2) := fun h hh => by positivity
  have e : ∀ h, 0 < h → Gen.matern Gam Kv h r c0 s b = b + c0 * (1 - g (h * Real.sqrt s / (r / 2))) := by
    intro h hh
    unfold Gen.matern
    simp only [hh.ne', if_false, Real.rpow_eq_pow, hg]
  have h2pos : 0 < h₂ := lt_of_lt_of_le h0 h12
  rw [e h₁ h0, e h₂ h2pos]
  obtain ⟨g0, g1⟩ := g_range _ (hx h₁ h0)
  refine ⟨affine_bounds hc (by linarith) (by linarith), ?_⟩
  have hle : h₁ * Real.sqrt s / (r / 2) ≤ h₂ * Real.sqrt s / (r / 2) := by
    apply div_le_div_of_nonneg_right _ (by positivity)
    exact mul_le_mul_of_nonneg_right h12 hsq.le
  have := g_anti _ _ (hx h₁ h0) hle
  exact affine_mono hc (by linarith)

/-! ## array dispatch and sums of models -/

/-- the `@variogram` decorator on an iterable first argument is `map` of the scalar function -/
def arrayCall {α β} (f : α → β) (hs : List α) : List β := hs.map f

theorem C03_array {α β} (f : α → β) (hs : List α) (i : ℕ) (hi : i < hs.length) :
    (arrayCall f hs)[i]'(by simpa [arrayCall] using hi) = f hs[i] := by
  simp [arrayCall]

/-- argument layout of the built-in models is the documented one (lag, range, sill, [shape],
nugget) -/
theorem C03_signatures :
    Gen.spherical_args = ["h", "r", "c0", "b"] ∧ Gen.exponential_args = ["h", "r", "c0", "b"] ∧
    Gen.gaussian_args = ["h", "r", "c0", "b"] ∧ Gen.cubic_args = ["h", "r", "c0", "b"] ∧
    Gen.stable_args = ["h", "r", "c0", "s", "b"] ∧ Gen.matern_args = ["h", "r", "c0", "s", "b"] := by
  decide

/-- the argument slices of a '+'-joined model tile the coefficient vector: consecutive, of the
components' parameter counts, the last one extended by the single shared nugget -/
theorem C03_sum_slices {α} (args : List α) : ∀ (ks : List ℕ) (off : ℕ), ks ≠ [] →
    (slicesAux off ks).flatMap (slice args) = (args.drop off).take (ks.sum + 1) := by
  intro ks
  induction ks with
  | nil => intro _ h; exact absurd rfl h
  | cons k rest ih =>
    intro off _
    cases rest with
    | nil =>
      simp only [slicesAux, List.flatMap_cons, List.flatMap_nil, List.append_nil, slice,
        List.sum_cons, List.sum_nil, Nat.add_zero]
      congr 1; omega
    | cons k' rest' =>
      have := ih (off + k) (by simp)
      simp only [slicesAux, List.flatMap_cons] at this ⊢
      rw [this]
      simp only [slice, List.sum_cons]
      have e1 : off + k - off = k := by omega
      rw [e1, ← List.drop_drop]
      generalize hm : k' + rest'.sum + 1 = m
      have e2 : k + (k' + rest'.sum) + 1 = k + m := by omega
      rw [e2, List.take_add]

theorem C03_sum_slices_count (ks : List ℕ) : ∀ off, (slicesAux off ks).length = ks.length := by
  induction ks with
  | nil => intro off; rfl
  | cons k rest ih =>
    intro off
    cases rest with
    | nil => rfl
    | cons k' rest' => simp only [slicesAux, List.length_cons]; rw [ih (off + k)]; rfl

/-- two-component sum: the components are evaluated with nugget 0 and the single trailing
nugget is added once (uses the nugget-additivity theorems above for the last component) -/
theorem C03_sum_two (f g : List ℝ → ℝ) (k₁ k₂ : ℕ) (ps qs : List ℝ) (b : ℝ)
    (hp : ps.length = k₁) (hq : qs.length = k₂)
    (hg : ∀ qs b, g (qs ++ [b]) = g qs + b) :
    sumModel [f, g] [k₁, k₂] (ps ++ qs ++ [b]) = f ps + g qs + b := by
  simp only [sumModel, argSlices, slicesAux, List.zip_cons_cons, List.zip_nil_right, List.map_cons,
    List.map_nil, List.foldl_cons, List.foldl_nil, slice]
  have e1 : ((ps ++ qs ++ [b]).drop 0).take (0 + k₁ - 0) = ps := by
    simp [← hp, List.append_assoc]
  have e2 : ((ps ++ qs ++ [b]).drop (0 + k₁)).take (0 + k₁ + k₂ + 1 - (0 + k₁)) = qs ++ [b] := by
    have : 0 + k₁ + k₂ + 1 - (0 + k₁) = k₂ + 1 := by omega
    rw [this, List.append_assoc, Nat.zero_add, ← hp, List.drop_left]
    rw [List.take_of_length_le]; simp [hq]
  rw [e1, e2, hg]; ring

/-- any number of components: a '+'-joined model, called with the concatenated parameters of
its components followed by one nugget, is the sum of the components (each evaluated without
nugget) plus that single nugget — provided the last component is nugget-additive, which
`C03_*_nugget_additive` establish for every built-in model -/
theorem C03_sum (fs : List (List ℝ → ℝ)) (pss : List (List ℝ)) (b : ℝ)
    (hlen : fs.length = pss.length) (hne : pss ≠ [])
    (hadd : ∀ f ∈ fs.getLast?, ∀ ps, f (ps ++ [b]) = f ps + b) :
    sumModel fs (pss.map List.length) (pss.flatten ++ [b]) =
      (List.zipWith (fun f ps => f ps) fs pss).sum + b := by
  unfold sumModel argSlices
  have h := evalAux_spec b pss fs [] hlen
  simp only [List.length_nil, List.nil_append] at h
  rw [h, foldl_add_eq_sum', componentCalls_sum b fs pss hlen hne hadd]

/-- non-vacuity: concrete admissible parameters -/
example : (0:ℝ) < 30 ∧ (0:ℝ) ≤ 2 ∧ Gen.spherical 40 30 2 1 = 3 :=
  ⟨by norm_num, by norm_num, by rw [C03_spherical_effrange 30 2 1 (by norm_num) (by norm_num)]; norm_num⟩

end Skg
