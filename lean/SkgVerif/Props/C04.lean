import SkgVerif.Model.Fit
import SkgVerif.Gen.Views
import Mathlib.Tactic
import SkgVerif.Props.Transcribed.C04
/-!
# C04 — all views of a fitted variogram describe one and the same function

A built-in model is called as `model(h, *ps)`; `callArgs` makes the default nugget explicit, so
two parameter lists denote the same function iff their `callArgs` coincide.
-/
namespace Skg

/-- under the layout that `fit` establishes, the model rebuilt from `describe()` (kriging,
`fitted_model_function(**describe)`) is called with exactly the arguments of the fitted model
(`fitted_model`, `transform`, `data`), and `parameters` lists exactly those arguments:
range, sill, (shape), nugget -/
theorem C04_views_agree (k : Kind) (un : Bool) (cof : List Rat) (h : layoutOK k un cof = true) :
    callArgs k (rebuildCof (describeOf k un cof)) = callArgs k cof ∧
    callArgs k cof = some (parametersOf (describeOf k un cof)) := by
  cases k <;> cases un <;> simp only [layoutOK, baseLen, beq_iff_eq] at h
  · -- plain, no nugget: cof = [r, s]
    match cof, h with
    | [r, s], _ => simp [callArgs, rebuildCof, describeOf, parametersOf, baseLen]
  · match cof, h with
    | [r, s, n], _ =>
      by_cases hn : n = 0
      · subst hn; simp [callArgs, rebuildCof, describeOf, parametersOf, baseLen]
      · simp [callArgs, rebuildCof, describeOf, parametersOf, baseLen, hn]
  · match cof, h with
    | [r, s, sh], _ => simp [callArgs, rebuildCof, describeOf, parametersOf, baseLen]
  · match cof, h with
    | [r, s, sh, n], _ =>
      by_cases hn : n = 0
      · subst hn; simp [callArgs, rebuildCof, describeOf, parametersOf, baseLen]
      · simp [callArgs, rebuildCof, describeOf, parametersOf, baseLen, hn]

/-- with the nugget disabled the reported nugget is 0 and the function is called with nugget 0
(so it is 0 at lag 0 by `C03_*_zero`) -/
theorem C04_no_nugget (k : Kind) (cof : List Rat) (h : layoutOK k false cof = true) :
    (describeOf k false cof).nugget = 0 ∧ ∃ ps, callArgs k cof = some (ps ++ [0]) := by
  refine ⟨rfl, cof, ?_⟩
  cases k <;> simp only [layoutOK, baseLen, beq_iff_eq] at h <;> simp [callArgs, baseLen, h]

/-- D6 (repaired by a `fix:` commit): the old manual-fit layout `[r, s, n]` with the nugget
disabled makes `fitted_model` use a nugget that `describe`/`parameters` report as 0 -/
theorem C04_manual_defect :
    let cof : List Rat := [30, 6/5, 3/10]
    layoutOK .plain false cof = false ∧
    callArgs .plain cof = some [30, 6/5, 3/10] ∧
    parametersOf (describeOf .plain false cof) = [30, 6/5, 0] ∧
    callArgs .plain (rebuildCof (describeOf .plain false cof)) = some [30, 6/5, 0] := by
  refine ⟨by decide +kernel, by decide +kernel, by decide +kernel, by decide +kernel⟩

/-- fit metrics over classes without NaN: rss = n·mse and mse is the mean squared residual -/
theorem C04_metrics (res : List Rat) (hne : res ≠ []) :
    let mse := sumR (res.map fun x => x * x) / (res.length : Rat)
    let rss := sumR (res.map fun x => x * x)
    rss = (res.length : Rat) * mse := by
  intro mse rss
  have : (res.length : Rat) ≠ 0 := by
    have := List.length_pos_iff.2 hne
    exact_mod_cast this.ne'
  simp only [mse, rss]; field_simp

/-! ## tie to the source: `describe`, `parameters`, `fitted_model_function` as generated -/

/-- kind of a built-in model name -/
def kindOf (mname : String) : Kind := if mname = "matern" ∨ mname = "stable" then .shaped else .plain

/-- `describe()` as generated from `create_dict_for_model` is `describeOf`: range `cof[0]`, sill
`cof[1]`, smoothness / shape `cof[2]` for matern / stable only, nugget `cof[-1]` iff enabled -/
theorem C04_source_describe (mname : String) (un : Bool) (cof : List Rat) :
    Gen.describeGen mname un cof = describeOf (kindOf mname) un cof := by
  unfold Gen.describeGen describeOf kindOf
  by_cases h1 : mname = "matern"
  · simp [h1]
  · by_cases h2 : mname = "stable"
    · simp [h2]
    · simp [h1, h2]

/-- the coefficient list rebuilt from `describe()` (what kriging evaluates), as generated from
`fitted_model_function`, is `rebuildCof` whenever the dictionary is one `describe()` produces
for that model (shape present iff the model has one) -/
theorem C04_source_rebuild (mname : String) (un : Bool) (cof : List Rat) :
    Gen.rebuildGen mname (Gen.describeGen mname un cof) = rebuildCof (Gen.describeGen mname un cof) := by
  unfold Gen.rebuildGen Gen.describeGen Gen.describeHasKey rebuildCof
  by_cases h1 : mname = "matern"
  · subst h1; by_cases hn : (if un then cof.getLastD 0 else (0 : Rat) / 1) = 0 <;> simp [hn]
  · by_cases h2 : mname = "stable"
    · subst h2; by_cases hn : (if un then cof.getLastD 0 else (0 : Rat) / 1) = 0 <;> simp [hn]
    · by_cases hn : (if un then cof.getLastD 0 else (0 : Rat) / 1) = 0 <;> simp [h1, h2, hn]

/-- `parameters` as generated lists exactly range, sill, (shape), nugget of `describe()` -/
theorem C04_source_parameters (mname : String) (hn : mname ≠ "nugget") (un : Bool) (cof : List Rat) :
    Gen.parametersGen mname (Gen.describeGen mname un cof) =
      parametersOf (Gen.describeGen mname un cof) := by
  unfold Gen.parametersGen Gen.describeGen parametersOf
  by_cases h1 : mname = "matern"
  · subst h1; simp
  · by_cases h2 : mname = "stable"
    · subst h2; simp
    · simp [h1, h2, hn]

/-- hence, for the code as it is: every view built from the generated definitions agrees with
the fitted coefficient vector under the layout `fit` establishes -/
theorem C04_source_views_agree (mname : String) (hn : mname ≠ "nugget") (un : Bool) (cof : List Rat)
    (h : layoutOK (kindOf mname) un cof = true) :
    callArgs (kindOf mname) (Gen.rebuildGen mname (Gen.describeGen mname un cof)) =
      callArgs (kindOf mname) cof ∧
    callArgs (kindOf mname) cof = some (Gen.parametersGen mname (Gen.describeGen mname un cof)) := by
  rw [C04_source_rebuild, C04_source_parameters mname hn, C04_source_describe]
  exact C04_views_agree (kindOf mname) un cof h

example : layoutOK .shaped true [30, 2, 3/2, 1/4] = true := by decide

end Skg
