import SkgVerif.Model.Fit
import Mathlib.Tactic
/-!
# C04 — all views of a fitted variogram describe one and the same function

A built-in model is called as `model(h, *ps)`; `callArgs` makes the default nugget explicit, so
two parameter lists denote the same function iff their `callArgs` coincide.
-/
namespace Skg

/-- under the layout that `fit` establishes, the model rebuilt from `describe()` (kriging,
`fitted_model_function(**describe)`) is called with exactly the arguments of the fitted model
(`fitted_model`, `transform`, `data`), and `parameters` lists exactly those arguments:
range, sill, (shape), nugget -/
theorem C04_views_agree (k : Kind) (un : Bool) (cof : List Rat) (h : layoutOK k un cof = true) :
    callArgs k (rebuildCof (describeOf k un cof)) = callArgs k cof ∧
    callArgs k cof = some (parametersOf (describeOf k un cof)) := by
  cases k <;> cases un <;> simp only [layoutOK, baseLen, beq_iff_eq] at h
  · -- plain, no nugget: cof = [r, s]
    match cof, h with
    | [r, s], _ => simp [callArgs, rebuildCof, describeOf, parametersOf, baseLen]
  · match cof, h with
    | [r, s, n], _ =>
      by_cases hn : n = 0
      · subst hn; simp [callArgs, rebuildCof, describeOf, parametersOf, baseLen]
      · simp [callArgs, rebuildCof, describeOf, parametersOf, baseLen, hn]
  · match cof, h with
    | [r, s, sh], _ => simp [callArgs, rebuildCof, describeOf, parametersOf, baseLen]
  · match cof, h with
    | [r, s, sh, n], _ =>
      by_cases hn : n = 0
      · subst hn; simp [callArgs, rebuildCof, describeOf, parametersOf, baseLen]
      · simp [callArgs, rebuildCof, describeOf, parametersOf, baseLen, hn]

/-- with the nugget disabled the reported nugget is 0 and the function is called with nugget 0
(so it is 0 at lag 0 by `C03_*_zero`) -/
theorem C04_no_nugget (k : Kind) (cof : List Rat) (h : layoutOK k false cof = true) :
    (describeOf k false cof).nugget = 0 ∧ ∃ ps, callArgs k cof = some (ps ++ [0]) := by
  refine ⟨rfl, cof, ?_⟩
  cases k <;> simp only [layoutOK, baseLen, beq_iff_eq] at h <;> simp [callArgs, baseLen, h]

/-- D6 (repaired by a `fix:` commit): the old manual-fit layout `[r, s, n]` with the nugget
disabled makes `fitted_model` use a nugget that `describe`/`parameters` report as 0 -/
theorem C04_manual_defect :
    let cof : List Rat := [30, 6/5, 3/10]
    layoutOK .plain false cof = false ∧
    callArgs .plain cof = some [30, 6/5, 3/10] ∧
    parametersOf (describeOf .plain false cof) = [30, 6/5, 0] ∧
    callArgs .plain (rebuildCof (describeOf .plain false cof)) = some [30, 6/5, 0] := by
  refine ⟨by decide +kernel, by decide +kernel, by decide +kernel, by decide +kernel⟩

/-- fit metrics over classes without NaN: rss = n·mse and mse is the mean squared residual -/
theorem C04_metrics (res : List Rat) (hne : res ≠ []) :
    let mse := sumR (res.map fun x => x * x) / (res.length : Rat)
    let rss := sumR (res.map fun x => x * x)
    rss = (res.length : Rat) * mse := by
  intro mse rss
  have : (res.length : Rat) ≠ 0 := by
    have := List.length_pos_iff.2 hne
    exact_mod_cast this.ne'
  simp only [mse, rss]; field_simp

example : layoutOK .shaped true [30, 2, 3/2, 1/4] = true := by decide

end Skg
