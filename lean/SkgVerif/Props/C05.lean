import SkgVerif.Model.Fit
import SkgVerif.Gen.Tables
import SkgVerif.Gen.FitSigmaReal
import Mathlib.Analysis.SpecialFunctions.Sqrt
import Mathlib.Analysis.SpecialFunctions.Exp
import Mathlib.Tactic
import SkgVerif.Props.Transcribed.C05
/-!
# C05 — automatic fits stay in bounds, are locally optimal and ignore empty lag classes

Optimiser convergence / local optimality is *validated* by the harness (restarts), not proved.
-/
namespace Skg

/-- the upper bounds coded in `__get_fit_bounds` (generated table) are the documented ones for
all six built-in models; the nugget bound is 0.99 × the largest experimental value; the lower
bound is 0 and the initial guess is the upper bound -/
theorem C05_bounds_table :
    (∀ m ∈ ["spherical", "exponential", "gaussian", "cubic", "stable", "matern"],
      Gen.fitBoundsTable m = documentedBounds m) ∧
    Gen.fitNuggetFactor = 99 / 100 ∧
    Gen.fitNuggetCond = "self.use_nugget and i == len(list_mname) - 1" ∧
    Gen.fitLowerBoundIsZero = true ∧ Gen.fitP0IsUpperBound = true := by
  refine ⟨by decide +kernel, by decide +kernel, by decide, rfl, rfl⟩

/-- every bound is non-negative data-derived or a positive constant: range ≤ largest lag edge,
sill ≤ largest experimental value, shape ≤ 2, smoothness ≤ 20, nugget ≤ 0.99·max -/
theorem C05_bounds_values (maxX maxY : Rat) :
    (documentedBounds "stable").map (evalBTok maxX maxY) = [maxX, maxY, 2] ∧
    (documentedBounds "matern").map (evalBTok maxX maxY) = [maxX, maxY, 20] ∧
    (documentedBounds "spherical").map (evalBTok maxX maxY) = [maxX, maxY] ∧
    evalBTok maxX maxY .nug = 99 / 100 * maxY := by
  refine ⟨by simp [documentedBounds, evalBTok], by simp [documentedBounds, evalBTok],
    by simp [documentedBounds, evalBTok], rfl⟩

/-- '+'-joined models: one block per component, a single nugget bound after the last -/
theorem C05_bounds_sum (table : String → List BTok) (a b : String) (un : Bool) :
    boundsFor table [a, b] un = table a ++ table b ++ (if un then [.nug] else []) := by
  simp [boundsFor]

theorem pick_length (keep : List Bool) : ∀ (l : List Rat), l.length = keep.length →
    (((l.zip keep).filter (·.2)).map (·.1)).length = keep.count true := by
  induction keep with
  | nil => intro l _; simp
  | cons b keep ih =>
    intro l hl
    cases l with
    | nil => simp at hl
    | cons x l =>
      have := ih l (by simpa using hl)
      cases b <;> simp [List.filter_cons, this]

theorem filterMap_length_count : ∀ (y : List (Option Rat)),
    (y.filterMap id).length = (y.map Option.isSome).count true := by
  intro y
  induction y with
  | nil => rfl
  | cons a y ih => cases a <;> simpa using ih

/-- filtering x, y and sigma with one and the same NaN mask keeps the triples aligned: all three
have the length of the non-empty classes -/
theorem C05_filter_aligned (x : List Rat) (y : List (Option Rat)) (sg : List Rat)
    (hx : x.length = y.length) (hs : sg.length = y.length) :
    let r := nanFilter3 x y (some sg)
    r.1.length = r.2.1.length ∧ r.2.2.map List.length = some r.2.1.length := by
  intro r
  have hy := filterMap_length_count y
  have h1 := pick_length (y.map Option.isSome) x (by simpa using hx)
  have h2 := pick_length (y.map Option.isSome) sg (by simpa using hs)
  simp only [r, nanFilter3, Option.map_some]
  exact ⟨by rw [h1, hy], by rw [h2, hy]⟩

theorem pick_congr : ∀ (y : List (Option Rat)) (l l' : List Rat), l.length = l'.length →
    (∀ i : ℕ, (y[i]?).bind id ≠ none → l[i]? = l'[i]?) →
    ((l.zip (y.map Option.isSome)).filter (·.2)).map (·.1) =
      ((l'.zip (y.map Option.isSome)).filter (·.2)).map (·.1) := by
  intro y
  induction y with
  | nil => intro l l' _ _; simp
  | cons a y ih =>
    intro l l' hl h
    cases l with
    | nil => cases l' with
      | nil => rfl
      | cons _ _ => simp at hl
    | cons b l => cases l' with
      | nil => simp at hl
      | cons b' l' =>
        have ih' := ih l l' (by simpa using hl) (fun i hi => by simpa using h (i + 1) (by simpa using hi))
        cases a with
        | none => simpa [List.filter_cons] using ih'
        | some v =>
          have : b = b' := by simpa using h 0 (by simp)
          subst this
          simpa [List.filter_cons] using ih'

/-- empty lag classes do not influence the objective: values of x and sigma at NaN positions
are irrelevant -/
theorem C05_empty_irrelevant (x x' : List Rat) (y : List (Option Rat)) (sg sg' : List Rat)
    (hx : ∀ i : ℕ, (y[i]?).bind id ≠ none → x[i]? = x'[i]?) (hlen : x.length = x'.length)
    (hs : ∀ i : ℕ, (y[i]?).bind id ≠ none → sg[i]? = sg'[i]?) (hlen' : sg.length = sg'.length) :
    nanFilter3 x y (some sg) = nanFilter3 x' y (some sg') := by
  simp only [nanFilter3, Option.map_some]
  rw [pick_congr y x x' hlen hx, pick_congr y sg sg' hlen' hs]

/-- D5 (repaired): passing the unfiltered sigma leaves it longer than x and y whenever a class
is empty — `curve_fit` rejects the shapes -/
theorem C05_sigma_len_defect :
    let r := nanFilter3Defect [1, 2, 3] [some 5, none, some 7] (some [1, 1, 1])
    r.1.length = 2 ∧ r.2.2.map List.length = some 3 := by
  refine ⟨by decide +kernel, by decide +kernel⟩


/-- the named fit weights (generated from the `fit_sigma` getter; `x = lag edge / largest lag edge`,
so `0 < x ≤ 1`): every one is a positive uncertainty of at most 1 that grows with the lag — nearer
lag classes are never given less weight than farther ones -/
theorem C05_weights {x y : ℝ} (hx : 0 < x) (hxy : x ≤ y) (hy : y ≤ 1) :
    (0 < Gen.sigma_linear x ∧ Gen.sigma_linear x ≤ Gen.sigma_linear y ∧ Gen.sigma_linear y ≤ 1) ∧
    (0 < Gen.sigma_exp x ∧ Gen.sigma_exp x ≤ Gen.sigma_exp y ∧ Gen.sigma_exp y ≤ 1) ∧
    (0 < Gen.sigma_sqrt x ∧ Gen.sigma_sqrt x ≤ Gen.sigma_sqrt y ∧ Gen.sigma_sqrt y ≤ 1) ∧
    (0 < Gen.sigma_sq x ∧ Gen.sigma_sq x ≤ Gen.sigma_sq y ∧ Gen.sigma_sq y ≤ 1) := by
  have hy0 : 0 < y := lt_of_lt_of_le hx hxy
  refine ⟨⟨hx, hxy, hy⟩, ⟨?_, ?_, ?_⟩, ⟨?_, ?_, ?_⟩, ⟨?_, ?_, ?_⟩⟩
  · unfold Gen.sigma_exp; positivity
  · unfold Gen.sigma_exp
    apply one_div_le_one_div_of_le (Real.exp_pos _)
    exact Real.exp_le_exp.2 (one_div_le_one_div_of_le hx hxy)
  · unfold Gen.sigma_exp
    rw [div_le_one (Real.exp_pos _)]
    exact Real.one_le_exp (by positivity)
  · exact Real.sqrt_pos.2 hx
  · exact Real.sqrt_le_sqrt hxy
  · unfold Gen.sigma_sqrt
    calc Real.sqrt y ≤ Real.sqrt 1 := Real.sqrt_le_sqrt hy
      _ = 1 := Real.sqrt_one
  · unfold Gen.sigma_sq; positivity
  · unfold Gen.sigma_sq; exact pow_le_pow_left₀ hx.le hxy 2
  · unfold Gen.sigma_sq; exact pow_le_one₀ hy0.le hy

end Skg
