import SkgVerif.Lemmas.CacheMachine
import SkgVerif.Gen.Tables
import SkgVerif.Gen.Source
import SkgVerif.Props.Transcribed.C06
/-!
# C06 — changing parameters in place is equivalent to building a fresh variogram

`run inval ops` is the state after a history of setter assignments and reads, starting from a
freshly constructed instance; `freshRead st r` says that the value read `r` reports in state
`st` is consistent with the *current* value of every setting it depends on — i.e. it is what a
newly constructed instance with the final settings computes.
-/
namespace Skg

open Setting Cache

/-- every setter and every read preserves "no stale cache", provided the setter's invalidation
set covers the dependency relation -/
theorem C06_inv_step (act : Bool → Setting → Cache → Action) (st : VState) (h : CInv st) (op : Op)
    (hcov : ∀ s alt, op = .set s alt → ∀ c, deps c s = true → act alt s c ≠ .keep) :
    CInv (step act st op) := by
  cases op with
  | set s alt => exact cinv_doSet (act alt) st h s (hcov s alt rfl)
  | read r => exact (good_doRead r).inv st h

/-- all histories: after any finite sequence of assignments (to settings whose invalidation is
not a listed gap) interleaved arbitrarily with reads, no stale edge, grouping, count, difference
or coefficient survives, and every read reports the value of a fresh instance -/
theorem C06_fresh_equiv (act : Bool → Setting → Cache → Action) (gaps : List (Setting × Cache))
    (hcov : ∀ alt, coversB (act alt) gaps = true) (ops : List Op)
    (hops : ∀ s alt, Op.set s alt ∈ ops → ∀ c, (s, c) ∉ gaps) :
    CInv (run act ops) ∧ ∀ r, freshRead (run act ops) r = true := by
  have hinv : ∀ (ops : List Op) (st : VState), CInv st →
      (∀ s alt, Op.set s alt ∈ ops → ∀ c, (s, c) ∉ gaps) → CInv (ops.foldl (step act) st) := by
    intro ops
    induction ops with
    | nil => intro st h _; exact h
    | cons op ops ih =>
      intro st h hs
      apply ih _ _ (fun s alt hm => hs s alt (List.mem_cons_of_mem _ hm))
      apply C06_inv_step act st h op
      intro s alt hop c hd
      exact covers_of_coversB (act alt) gaps (hcov alt) s
        (hs s alt (by rw [hop]; exact List.mem_cons_self)) c hd
  have hI : CInv (run act ops) := hinv ops VState.init cinv_init hops
  refine ⟨hI, fun r => ?_⟩
  unfold freshRead
  have hsome := doRead_some (run act ops) r
  have hI' := (good_doRead r).inv _ hI
  cases hc : (doRead (run act ops) r).cache r.target with
  | none => rw [hc] at hsome; simp at hsome
  | some t =>
    simp only
    rw [List.all_eq_true]
    intro s _
    by_cases hd : deps r.target s = true
    · simp [hI' _ t hc s hd]
    · simp [hd]

/-- the invalidation sets extracted from the *current source* of `Variogram.py` and
`DirectionalVariogram.py` cover the dependency relation, except for the listed known gap
(`use_nugget` does not drop the fit — D7, pinned by `test_use_nugget_setting`) -/
def knownGaps : List (Setting × Cache) := [(useNugget, cof)]

def sourceAct (alt : Bool) (s : Setting) (c : Cache) : Action :=
  if directional s then actOfTable Gen.directionalResets alt s c
  else actOfTable Gen.variogramResets alt s c

theorem C06_source_covers : ∀ alt, coversB (sourceAct alt) knownGaps = true := by decide +kernel

/-- hence: for the setters as they are in the source today, every history that does not assign
`use_nugget` leaves no stale value behind -/
theorem C06_source_histories (ops : List Op) (h : ∀ alt, Op.set useNugget alt ∉ ops) :
    ∀ r, freshRead (run sourceAct ops) r = true := by
  refine (C06_fresh_equiv sourceAct knownGaps C06_source_covers ops ?_).2
  intro s alt hs c hc
  simp only [knownGaps, List.mem_singleton, Prod.mk.injEq] at hc
  exact h alt (hc.1 ▸ hs)

/-- the known gap is real (D7): read the parameters, flip `use_nugget`, read again — the reported
coefficients are those of the old setting -/
theorem C06_gap_witness_use_nugget :
    freshRead (run sourceAct [.read .parameters, .set useNugget false]) .parameters = false := by
  decide +kernel

/-- non-vacuity: a history with interleaved reads that meets the hypothesis -/
example : freshRead (run sourceAct [.read .parameters, .set nLags false, .read .bins,
    .set values false, .set binFunc true, .set estimator false]) .transform = true := by
  decide +kernel

/-- the skeleton of the lazy getters the cache machine transcribes (which cache guards which
recomputation, which other getters are called, in source order), as it is in the source now -/
theorem C06_source_getters : Gen.gettersSource =
    [
    ("bins", "if self._bins is None ; (self._bins, n) := self.bin_func() ; return self._bins.copy()"),
    ("lag_groups", "if self._groups is None ; call self._calc_groups() ; return self._groups"),
    ("pairwise_diffs", "if self._diff is None ; call self.preprocessing() ; return self._diff"),
    ("bin_count", "if self._bin_count is None ; self._bin_count := self.lag_classes() ; return self._bin_count"),
    ("preprocessing", "call self._calc_diff(force=force) ; call self._calc_groups(force=force)"),
    ("_calc_groups", "if self._groups is not None and (not force) ; self._groups := "),
    ("_calc_diff", "if self._diff is not None and (not force) ; call self._format_values_stack(self.values) ; call self._format_values_stack(self._co_variable) ; self._diff := "),
    ("lag_classes", "call self.lag_groups()"),
    ("fitted_model", "if self.cof is None ; call self.fit(force=True) ; return self.fitted_model_function(self._model, self.cof)"),
    ("transform", "call self.preprocessing() ; if self.cof is None ; call self.fit(force=True) ; return self.fitted_model(x)"),
    ("fit:head", "if self.cof is None ; else ; call self.describe() ; if force ; self.cof :=  ; self.cov :=  ; call self.preprocessing(force=force)"),
    ("describe:head", "if self.cof is None ; call self.fit(force=True)")] := by rfl

end Skg
