import SkgVerif.Lemmas.Kriging
import SkgVerif.Lemmas.KrigeAlgebra
/-!
# C07 — ordinary kriging returns the solution of the ordinary-kriging system
-/
namespace Skg

/-- neighbourhood: the selected points are candidates (within range), there are
`min N |candidates|` of them, and no selected point is farther than a rejected candidate -/
theorem C07_neighbours (row : List Rat) (maxDist : Rat) (N : ℕ) :
    ∃ sel rest : List (Rat × ℕ),
      findClosestDense row maxDist N = sel.map (·.2) ∧
      (sel ++ rest).Perm (candidatesDense row maxDist) ∧
      sel.length = min N (candidatesDense row maxDist).length ∧
      (∀ a ∈ sel, ∀ b ∈ rest, a.1 ≤ b.1) ∧
      (∀ a ∈ sel, row[a.2]? = some a.1 ∧ a.1 ≤ maxDist) := by
  obtain ⟨sel, rest, h1, h2, h3, h4⟩ := selectFrom_spec (candidatesDense row maxDist) N
  refine ⟨sel, rest, h1, h2, h3, h4, ?_⟩
  intro a ha
  have : a ∈ candidatesDense row maxDist := h2.mem_iff.1 (List.mem_append_left _ ha)
  exact (mem_candidatesDense row maxDist a.1 a.2).1 this

/-- exactly the points within range are candidates -/
theorem C07_candidates (row : List Rat) (maxDist d : Rat) (i : ℕ) :
    (d, i) ∈ candidatesDense row maxDist ↔ (row[i]? = some d ∧ d ≤ maxDist) :=
  mem_candidatesDense row maxDist d i

/-- shape of the assembled system: `n+1` rows; row `i < n` = semivariances with zero diagonal
followed by 1; last row = ones followed by 0; right-hand side = `γ(d(p,·))` followed by 1 -/
theorem C07_system (n : ℕ) (G : ℕ → ℕ → Rat) (g0 : ℕ → Rat) :
    (assemble n G).length = n + 1 ∧
    (∀ i (hi : i < n), (assemble n G)[i]'(by simp [assemble]; omega) =
        ((List.range n).map fun j => if i = j then 0 else G i j) ++ [1]) ∧
    (assemble n G)[n]'(by simp [assemble]) = ((List.range n).map fun _ => (1 : Rat)) ++ [0] ∧
    rhs n g0 = ((List.range n).map g0) ++ [1] := by
  refine ⟨by simp [assemble], ?_, ?_, rfl⟩
  · intro i hi
    unfold assemble
    rw [List.getElem_append_left (by simpa using hi)]
    simp
  · unfold assemble
    rw [List.getElem_append_right (by simp)]
    simp

/-- whatever the solver, a returned result carries an exact certificate `A x = b`, and estimate
and variance are `Σ λ_i z_i` and `Σ λ_i γ(d(p, x_i)) + μ` -/
theorem C07_outputs (n : ℕ) (G : ℕ → ℕ → Rat) (g0 : ℕ → Rat) (v : List Rat) (r : KrigeResult)
    (h : krigeSolve n G g0 v = some r) :
    ∃ x, mulVec (assemble n G) x = rhs n g0 ∧ r.weights = x.take n ∧ r.mu = x.getD n 0 ∧
      r.estimate = dot r.weights v ∧ r.variance = dot ((rhs n g0).take n) r.weights + r.mu := by
  unfold krigeSolve at h
  simp only at h
  split at h
  · exact absurd h (by simp)
  · rename_i x _
    split_ifs at h with hc
    · refine ⟨x, by simpa [checkSol] using hc, ?_⟩
      cases h
      exact ⟨rfl, rfl, rfl, rfl⟩

theorem count_none_zOf : ∀ outcomes : List Outcome,
    (outcomes.map zOf).count none = outcomes.countP isLess + outcomes.countP isSing := by
  intro outcomes
  induction outcomes with
  | nil => simp
  | cons o os ih =>
    simp only [List.map_cons, List.countP_cons, List.count_cons]
    rw [ih]
    cases o <;> simp [zOf, isLess, isSing] <;> omega

/-- bookkeeping of one `transform` call over any list of per-target outcomes: the i-th variance
belongs to the i-th estimate, both are NaN exactly for the failed targets, and the counters are
the numbers of the respective failures -/
theorem C07_bookkeeping (outcomes : List Outcome) :
    let s := transformLoop outcomes
    s.z = outcomes.map zOf ∧ s.sigma = outcomes.map sigOf ∧ s.cursor = outcomes.length ∧
    s.noPoints = outcomes.countP isLess ∧ s.singular = outcomes.countP isSing ∧
    (∀ i (hi : i < outcomes.length),
      ((outcomes.map zOf)[i]'(by simpa using hi) = none ↔
       (outcomes.map sigOf)[i]'(by simpa using hi) = none)) ∧
    (outcomes.map zOf).count none = outcomes.countP isLess + outcomes.countP isSing := by
  intro s
  have hs : s = specState outcomes.length outcomes := transformLoop_spec outcomes
  refine ⟨by rw [hs]; rfl, by rw [hs]; simp [specState], by rw [hs]; rfl, by rw [hs]; rfl,
    by rw [hs]; rfl, ?_, ?_⟩
  · intro i hi
    simp only [List.getElem_map]
    cases outcomes[i] <;> simp [zOf, sigOf]
  · exact count_none_zOf outcomes

/-- non-vacuity: a 2-point system is solved exactly -/
example : (krigeSolve 2 (fun _ _ => 1) (fun i => if i = 0 then 1/2 else 1) [10, 20]).map (·.estimate)
    = some (25/2) := by decide +kernel

end Skg
