import SkgVerif.Lemmas.Kriging
import SkgVerif.Lemmas.KrigeAlgebra
import SkgVerif.Lemmas.KrigeBridge
import SkgVerif.Gen.Source
import SkgVerif.Props.Transcribed.C07
/-!
# C07 — ordinary kriging returns the solution of the ordinary-kriging system
-/
namespace Skg

/-- neighbourhood: the selected points are candidates (within range), there are
`min N |candidates|` of them, and no selected point is farther than a rejected candidate -/
theorem C07_neighbours (row : List Rat) (maxDist : Rat) (N : ℕ) :
    ∃ sel rest : List (Rat × ℕ),
      findClosestDense row maxDist N = sel.map (·.2) ∧
      (sel ++ rest).Perm (candidatesDense row maxDist) ∧
      sel.length = min N (candidatesDense row maxDist).length ∧
      (∀ a ∈ sel, ∀ b ∈ rest, a.1 ≤ b.1) ∧
      (∀ a ∈ sel, row[a.2]? = some a.1 ∧ a.1 ≤ maxDist) := by
  obtain ⟨sel, rest, h1, h2, h3, h4⟩ := selectFrom_spec (candidatesDense row maxDist) N
  refine ⟨sel, rest, h1, h2, h3, h4, ?_⟩
  intro a ha
  have : a ∈ candidatesDense row maxDist := h2.mem_iff.1 (List.mem_append_left _ ha)
  exact (mem_candidatesDense row maxDist a.1 a.2).1 this

/-- exactly the points within range are candidates -/
theorem C07_candidates (row : List Rat) (maxDist d : Rat) (i : ℕ) :
    (d, i) ∈ candidatesDense row maxDist ↔ (row[i]? = some d ∧ d ≤ maxDist) :=
  mem_candidatesDense row maxDist d i

/-- shape of the assembled system: `n+1` rows; row `i < n` = semivariances with zero diagonal
followed by 1; last row = ones followed by 0; right-hand side = `γ(d(p,·))` followed by 1 -/
theorem C07_system (n : ℕ) (G : ℕ → ℕ → Rat) (g0 : ℕ → Rat) :
    (assemble n G).length = n + 1 ∧
    (∀ i (hi : i < n), (assemble n G)[i]'(by simp [assemble]; omega) =
        ((List.range n).map fun j => if i = j then 0 else G i j) ++ [1]) ∧
    (assemble n G)[n]'(by simp [assemble]) = ((List.range n).map fun _ => (1 : Rat)) ++ [0] ∧
    rhs n g0 = ((List.range n).map g0) ++ [1] := by
  refine ⟨by simp [assemble], ?_, ?_, rfl⟩
  · intro i hi
    unfold assemble
    rw [List.getElem_append_left (by simpa using hi)]
    simp
  · unfold assemble
    rw [List.getElem_append_right (by simp)]
    simp

/-- whatever the solver, a returned result carries an exact certificate `A x = b`, and estimate
and variance are `Σ λ_i z_i` and `Σ λ_i γ(d(p, x_i)) + μ` -/
theorem C07_outputs (n : ℕ) (G : ℕ → ℕ → Rat) (g0 : ℕ → Rat) (v : List Rat) (r : KrigeResult)
    (h : krigeSolve n G g0 v = some r) :
    ∃ x, x.length = n + 1 ∧ mulVec (assemble n G) x = rhs n g0 ∧ r.weights = x.take n ∧
      r.mu = x.getD n 0 ∧
      r.estimate = dot r.weights v ∧ r.variance = dot ((rhs n g0).take n) r.weights + r.mu := by
  unfold krigeSolve at h
  simp only at h
  split at h
  · exact absurd h (by simp)
  · rename_i x _
    split_ifs at h with hc
    · simp only [checkSol, Bool.and_eq_true, beq_iff_eq, decide_eq_true_eq] at hc
      refine ⟨x, by simpa [rhs] using hc.1, hc.2, ?_⟩
      cases h
      exact ⟨rfl, rfl, rfl, rfl⟩

/-- the assembled list system is the ordinary-kriging equations (`IsOKSol`, the hypothesis of
all C08 theorems): a result of the executable model always satisfies them -/
theorem C07_result_is_OK_solution (n : ℕ) (G : ℕ → ℕ → Rat) (g0 : ℕ → Rat) (v : List Rat)
    (r : KrigeResult) (h : krigeSolve n G g0 v = some r) :
    IsOKSol (n := n) (fun i j => if (i : ℕ) = (j : ℕ) then 0 else G i j) (fun i => g0 i)
      (fun j => r.weights.getD j 0) r.mu := by
  obtain ⟨x, hlen, hx, hw, hmu, _, _⟩ := C07_outputs n G g0 v r h
  have hwl : r.weights.length = n := by rw [hw, List.length_take]; omega
  have hsplit : x = r.weights ++ [r.mu] := by
    rw [hw, hmu]
    have h1 : x = x.take n ++ x.drop n := (List.take_append_drop n x).symm
    have h2 : x.drop n = [x.getD n 0] := by
      have hdl : (x.drop n).length = 1 := by rw [List.length_drop]; omega
      match hd : x.drop n, hdl with
      | [a], _ =>
        have : x.getD n 0 = a := by
          rw [List.getD_eq_getElem?_getD, ← List.head?_drop, hd]; rfl
        rw [this]
    rw [← h2]; exact h1
  rw [hsplit] at hx
  exact (system_iff_isOKSol n G g0 r.weights r.mu hwl).1 hx

/-- consequently the weights of every result of the executable model sum to one (C08 on the
model itself, not only on an abstract solution) -/
theorem C07_model_weights_sum_one (n : ℕ) (G : ℕ → ℕ → Rat) (g0 : ℕ → Rat) (v : List Rat)
    (r : KrigeResult) (h : krigeSolve n G g0 v = some r) :
    (Finset.univ : Finset (Fin n)).sum (fun j => r.weights.getD j 0) = 1 :=
  (C07_result_is_OK_solution n G g0 v r h).2

theorem count_none_zOf : ∀ outcomes : List Outcome,
    (outcomes.map zOf).count none = outcomes.countP isLess + outcomes.countP isSing := by
  intro outcomes
  induction outcomes with
  | nil => simp
  | cons o os ih =>
    simp only [List.map_cons, List.countP_cons, List.count_cons]
    rw [ih]
    cases o <;> simp [zOf, isLess, isSing] <;> omega

/-- bookkeeping of one `transform` call over any list of per-target outcomes: the i-th variance
belongs to the i-th estimate, both are NaN exactly for the failed targets, and the counters are
the numbers of the respective failures -/
theorem C07_bookkeeping (outcomes : List Outcome) :
    let s := transformLoop outcomes
    s.z = outcomes.map zOf ∧ s.sigma = outcomes.map sigOf ∧ s.cursor = outcomes.length ∧
    s.noPoints = outcomes.countP isLess ∧ s.singular = outcomes.countP isSing ∧
    (∀ i (hi : i < outcomes.length),
      ((outcomes.map zOf)[i]'(by simpa using hi) = none ↔
       (outcomes.map sigOf)[i]'(by simpa using hi) = none)) ∧
    (outcomes.map zOf).count none = outcomes.countP isLess + outcomes.countP isSing := by
  intro s
  have hs : s = specState outcomes.length outcomes := transformLoop_spec outcomes
  refine ⟨by rw [hs]; rfl, by rw [hs]; simp [specState], by rw [hs]; rfl, by rw [hs]; rfl,
    by rw [hs]; rfl, ?_, ?_⟩
  · intro i hi
    simp only [List.getElem_map]
    cases outcomes[i] <;> simp [zOf, sigOf]
  · exact count_none_zOf outcomes

/-- number of selected neighbours: `min max_points |{i : d_i ≤ range}|` -/
theorem findClosestDense_length (row : List Rat) (maxDist : Rat) (N : ℕ) :
    (findClosestDense row maxDist N).length = min N (candidatesDense row maxDist).length := by
  obtain ⟨sel, rest, h1, _, h3, _⟩ := selectFrom_spec (candidatesDense row maxDist) N
  unfold findClosestDense
  rw [h1, List.length_map, h3]

/-- one target, end to end (`_krige`): NaN for "not enough neighbours" exactly when fewer than
`min_points` observations lie within the range (after the cut to `max_points`); otherwise the
estimate and variance are those of the exactly solved ordinary-kriging system of the selected
neighbourhood `idx` — the neighbourhood characterised by `C07_neighbours`. -/
theorem C07_target (maxDist : Rat) (minP maxP : ℕ) (G : ℕ → ℕ → Rat) (v : List Rat)
    (t : List Rat × List Rat) :
    let idx := findClosestDense t.1 maxDist maxP
    (krigeOne maxDist minP maxP G v t = .lessPoints ↔
        min maxP (candidatesDense t.1 maxDist).length < minP) ∧
    (∀ z sg, krigeOne maxDist minP maxP G v t = .ok z sg →
      ∃ r : KrigeResult,
        krigeSolve idx.length (fun a b => G (idx.getD a 0) (idx.getD b 0))
          (fun a => t.2.getD (idx.getD a 0) 0) (idx.map fun i => v.getD i 0) = some r ∧
        z = r.estimate ∧ sg = r.variance ∧
        IsOKSol (n := idx.length)
          (fun i j => if (i : ℕ) = (j : ℕ) then 0 else G (idx.getD i 0) (idx.getD j 0))
          (fun i => t.2.getD (idx.getD i 0) 0) (fun j => r.weights.getD j 0) r.mu) := by
  intro idx
  have hlen : idx.length = min maxP (candidatesDense t.1 maxDist).length :=
    findClosestDense_length t.1 maxDist maxP
  constructor
  · unfold krigeOne
    simp only
    rw [← hlen]
    constructor
    · intro h
      by_contra hc
      simp only [idx] at hc
      rw [if_neg hc] at h
      split at h <;> simp at h
    · intro h
      simp only [idx] at h
      rw [if_pos h]
  · intro z sg h
    unfold krigeOne at h
    simp only at h
    split_ifs at h with hc
    split at h
    · simp at h
    · rename_i r hr
      simp only [Outcome.ok.injEq] at h
      exact ⟨r, hr, h.1.symm, h.2.symm, C07_result_is_OK_solution _ _ _ _ r hr⟩

/-- a whole `transform` call, end to end: the i-th estimate and the i-th variance are those of the
i-th target (computed by `krigeOne` from that target alone), both NaN exactly for the failed
targets, and the two failure counters count them -/
theorem C07_transform (maxDist : Rat) (minP maxP : ℕ) (G : ℕ → ℕ → Rat) (v : List Rat)
    (targets : List (List Rat × List Rat)) :
    let k := krigeOne maxDist minP maxP G v
    let s := krigeTransform maxDist minP maxP G v targets
    s.z = targets.map (zOf ∘ k) ∧ s.sigma = targets.map (sigOf ∘ k) ∧
    s.noPoints = (targets.filter fun t =>
        decide (min maxP (candidatesDense t.1 maxDist).length < minP)).length ∧
    s.noPoints + s.singular = s.z.count none ∧
    (∀ i (hi : i < targets.length), (s.z[i]? = some none ↔ s.sigma[i]? = some none)) := by
  intro k s
  have hb := C07_bookkeeping (targets.map k)
  simp only at hb
  obtain ⟨hz, hs, _, hn, hsing, hnan, hcount⟩ := hb
  have hz' : s.z = targets.map (zOf ∘ k) := by
    show (transformLoop (targets.map k)).z = _
    rw [hz, List.map_map]
  have hs' : s.sigma = targets.map (sigOf ∘ k) := by
    show (transformLoop (targets.map k)).sigma = _
    rw [hs, List.map_map]
  refine ⟨hz', hs', ?_, ?_, ?_⟩
  · show (transformLoop (targets.map k)).noPoints = _
    rw [hn, List.countP_map, List.countP_eq_length_filter]
    congr 1
    apply List.filter_congr
    intro t _
    have := (C07_target maxDist minP maxP G v t).1
    simp only [Function.comp]
    cases hk : k t <;> simp [isLess, k] at * <;> simp_all
  · show (transformLoop (targets.map k)).noPoints + (transformLoop (targets.map k)).singular = _
    rw [hn, hsing, hz', ← hcount, List.map_map]
  · intro i hi
    rw [hz', hs']
    simp only [List.getElem?_map, List.getElem?_eq_getElem hi, Option.map_some, Function.comp,
      Option.some.injEq]
    cases k targets[i] <;> simp [zOf, sigOf]

/-- non-vacuity: a 2-point system is solved exactly -/
example : (krigeSolve 2 (fun _ _ => 1) (fun i => if i = 0 then 1/2 else 1) [10, 20]).map (·.estimate)
    = some (25/2) := by decide +kernel

/-- non-vacuity of the end-to-end model: two observations, one target in range, one out of range -/
example : (krigeTransform 5 1 2 (fun _ _ => 1) [10, 20] [([1, 2], [1/2, 1]), ([9, 8], [1, 1])]).z
    = [some (25/2), none] := by decide +kernel

/-- the statements of `OrdinaryKriging._krige` the model transcribes, as they are in the source
now: not-enough-neighbours test on the size of the selection, neighbours from `find_closest` with
the variogram's range and `max_points`, zero corner, right-hand side `γ(d(p,·))` followed by 1,
variance `Σ b_i λ_i + μ`, estimate `λ·z` -/
theorem C07_source_krige : Gen.krigeSource =
    [("min_points", "if idx.size < self._minp:\n    raise LessPointsError"),
     ("neighbours", "idx = self.transform_coords_pair.find_closest(idx, self.range, self._maxp)"),
     ("values", "values = self.values[idx]"),
     ("corner", "a[-1, -1] = 0"),
     ("rhs", "b = np.concatenate((_g, [1]))"),
     ("weights", "_lambda = self._solve(a, b)"),
     ("variance", "sigma = sum(b[:-1] * _lambda[:-1]) + _lambda[-1]"),
     ("estimate", "Z = _lambda[:-1].dot(values)"),
     ("return", "return (Z, sigma)")] := by rfl

/-- neighbour search (`DistanceMethods.find_closest`): candidates `d ≤ max_dist` (dense) or the
stored entries (sparse), cut to `N` only when there are more, after a *stable* sort -/
theorem C07_source_find_closest : Gen.findClosestSource =
    [("candidates", "ridx = np.array([k[1] for k in dists.todok().keys()]) | ridx = ridx[sorted_ridx][:N] | ridx = np.where(dists <= max_dist)[0] | ridx = np.arange(len(dists))"),
     ("guard", "ridx.size > N"),
     ("sort", "sorted_ridx = np.argsort(selected_dists, kind='stable')")] := by rfl

/-- bookkeeping of `_estimator` / `transform`: the variance is stored at the cursor only for a
successful target, the cursor advances on every path, NaN is the estimate of a failed target;
`transform` re-initialises counters, buffer (NaN) and cursor -/
theorem C07_source_bookkeeping :
    Gen.estimatorSource =
      [("cursor", "self.__sigma_index += 1"), ("cursor_position", "top"),
       ("store", "self.sigma[self.__sigma_index] = sigma"), ("nan", "z = estimation | z = np.nan")] ∧
    Gen.transformSource =
      [("singular_error", "self.singular_error = 0"), ("no_points_error", "self.no_points_error = 0"),
       ("sigma", "self.sigma = np.ones(len(x[0])) * np.nan"), ("cursor", "self.__sigma_index = 0")] :=
  ⟨by rfl, by rfl⟩

end Skg
