import SkgVerif.Lemmas.KrigeAlgebra
import SkgVerif.Props.Transcribed.C08
/-!
# C08 — ordinary kriging is an exact and unbiased interpolator

For *any* solution `(w, μ)` of the ordinary-kriging system (`IsOKSol`: the equations the
assembled matrix encodes, see `C07_system`), over an arbitrary field and any number of
neighbours.
-/
open Finset BigOperators

namespace Skg

variable {α : Type*} [Field α] {n : ℕ}

theorem C08_weights_sum_one {G : Fin n → Fin n → α} {g0 w μ} (h : IsOKSol G g0 w μ) :
    ∑ j, w j = 1 := h.2

/-- adding a constant to all observations adds it to the estimate; the variance does not involve
the observations at all -/
theorem C08_shift {G : Fin n → Fin n → α} {g0 w μ} (h : IsOKSol G g0 w μ) (v : Fin n → α) (c : α) :
    est w (fun j => v j + c) = est w v + c := est_shift h v c

/-- a constant field is reproduced exactly -/
theorem C08_constant {G : Fin n → Fin n → α} {g0 w μ} (h : IsOKSol G g0 w μ) (c : α) :
    est w (fun _ => c) = c := est_const h c

/-- scaling the semivariances by `c` (for observations scaled by `k`: `c = k²`) keeps the weights,
scales the multiplier and the variance by `c`; the estimate of the scaled observations scales by
`k` -/
theorem C08_scale {G : Fin n → Fin n → α} {g0 w μ} (h : IsOKSol G g0 w μ) (k : α) (v : Fin n → α) :
    IsOKSol (fun i j => k * k * G i j) (fun i => k * k * g0 i) w (k * k * μ) ∧
    kvar (fun i => k * k * g0 i) w (k * k * μ) = k * k * kvar g0 w μ ∧
    est w (fun j => k * v j) = k * est w v :=
  ⟨scale_sol h (k * k), kvar_scale g0 w μ (k * k), est_scale w v k⟩

/-- exact interpolation: unique solution, target = observation `k`, `γ(0) = 0` (zero nugget)
⇒ estimate = observed value, variance = 0 -/
theorem C08_exact (G : Fin n → Fin n → α) (g0 : Fin n → α) (k : Fin n)
    (hcol : ∀ i, g0 i = G i k) (hzero : G k k = 0) (w : Fin n → α) (μ : α)
    (h : IsOKSol G g0 w μ) (uniq : ∀ w' μ', IsOKSol G g0 w' μ' → w' = w ∧ μ' = μ)
    (v : Fin n → α) : est w v = v k ∧ kvar g0 w μ = 0 :=
  exact_at_obs G g0 k hcol hzero w μ h uniq v

theorem C08_variance_quadratic {G : Fin n → Fin n → α} {g0 w μ} (h : IsOKSol G g0 w μ) :
    kvar g0 w μ = 2 * ∑ i, w i * g0 i - ∑ i, ∑ j, w i * w j * G i j := kvar_quadratic h

/-- the variance is non-negative **given** conditional negative definiteness of the extended
semivariance matrix (target included with weight −1): the hypothesis is the mathematical fact
assumed for the spherical (≤3-D), exponential, cubic, stable (s ≤ 2) and Matérn models -/
theorem C08_variance_nonneg {β : Type*} [Field β] [LinearOrder β] [IsStrictOrderedRing β]
    {G : Fin n → Fin n → β} {g0 w μ} (h : IsOKSol G g0 w μ)
    (cnd : ∀ u : Fin n → β, ∑ j, u j = 1 →
      0 ≤ 2 * ∑ i, u i * g0 i - ∑ i, ∑ j, u i * u j * G i j) :
    0 ≤ kvar g0 w μ := by
  rw [kvar_quadratic h]; exact cnd w h.2

/-- non-vacuity: two observations with γ = 1 between them, target at equal semivariance ½ -/
example : IsOKSol (n := 2) (α := ℚ) (fun i j => if i = j then 0 else 1) (fun _ => 1/2)
    (fun _ => 1/2) 0 := by
  refine ⟨fun i => ?_, ?_⟩
  · fin_cases i <;> simp [Fin.sum_univ_two]
  · simp

end Skg
