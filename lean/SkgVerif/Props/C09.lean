import SkgVerif.Lemmas.Kriging
import SkgVerif.Lemmas.KrigeAlgebra
import SkgVerif.Gen.Source
import SkgVerif.Props.Transcribed.C09
/-!
# C09 — kriging results do not depend on how the computation is carried out
-/
namespace Skg

/-- one `transform` call over a target list is the pointwise map of the per-target computation:
the state is re-initialised at the start of every call, so nothing of an earlier call or of the
other targets of the batch influences a result -/
theorem C09_pointwise {T} (k : T → Outcome) (targets : List T) :
    (transformLoop (targets.map k)).z = targets.map (zOf ∘ k) ∧
    (transformLoop (targets.map k)).sigma = targets.map (sigOf ∘ k) := by
  rw [transformLoop_spec]
  simp [specState]

/-- any batch composition: splitting the targets into two calls gives the concatenated results -/
theorem C09_batches {T} (k : T → Outcome) (t₁ t₂ : List T) :
    (transformLoop ((t₁ ++ t₂).map k)).z =
      (transformLoop (t₁.map k)).z ++ (transformLoop (t₂.map k)).z ∧
    (transformLoop ((t₁ ++ t₂).map k)).sigma =
      (transformLoop (t₁.map k)).sigma ++ (transformLoop (t₂.map k)).sigma := by
  have e := C09_pointwise k (t₁ ++ t₂)
  rw [e.1, e.2, (C09_pointwise k t₁).1, (C09_pointwise k t₁).2, (C09_pointwise k t₂).1,
    (C09_pointwise k t₂).2]
  simp

/-- any ordering: the result for a target does not depend on its position in the batch -/
theorem C09_permutation {T} (k : T → Outcome) (ts : List T) (i j : ℕ) (hi : i < ts.length)
    (hj : j < ts.length) (h : ts[i] = ts[j]) :
    ((transformLoop (ts.map k)).z)[i]'(by rw [(C09_pointwise k ts).1]; simpa using hi) =
    ((transformLoop (ts.map k)).z)[j]'(by rw [(C09_pointwise k ts).1]; simpa using hj) := by
  simp only [(C09_pointwise k ts).1, List.getElem_map, Function.comp, h]

/-- sparse and dense neighbour search coincide whenever the stored entries of the row are
exactly the in-range entries of the dense row -/
theorem C09_sparse_dense (row : List Rat) (maxDist : Rat) (entries : List (Rat × ℕ)) (N : ℕ)
    (h : entries = candidatesDense row maxDist) :
    findClosestSparse entries N = findClosestDense row maxDist N := by
  subst h; rfl

/-- the sparse row stores the in-range entries in whatever order the sparse format yields them:
the selected neighbourhood is an admissible "nearest N within range" choice for every order ... -/
theorem C09_sparse_admissible (row : List Rat) (maxDist : Rat) (entries : List (Rat × ℕ)) (N : ℕ)
    (h : entries.Perm (candidatesDense row maxDist)) :
    ∃ sel rest : List (Rat × ℕ),
      findClosestSparse entries N = sel.map (·.2) ∧
      (sel ++ rest).Perm (candidatesDense row maxDist) ∧
      sel.length = min N (candidatesDense row maxDist).length ∧
      (∀ a ∈ sel, ∀ b ∈ rest, a.1 ≤ b.1) := by
  obtain ⟨sel, rest, h1, h2, h3, h4⟩ := selectFrom_spec entries N
  exact ⟨sel, rest, h1, h2.trans h, by rw [h3, h.length_eq], h4⟩

/-- ... and it is the dense neighbourhood itself (up to order) when no two in-range observations
are equidistant from the target, so that no tie has to be broken -/
theorem C09_sparse_dense_any_order (row : List Rat) (maxDist : Rat) (entries : List (Rat × ℕ))
    (N : ℕ) (h : entries.Perm (candidatesDense row maxDist))
    (hd : (entries.map (·.1)).Nodup) :
    (findClosestSparse entries N).Perm (findClosestDense row maxDist N) :=
  selectFrom_perm entries (candidatesDense row maxDist) h hd N

/-- the kriging result does not depend on the order of the selected neighbours either: a
relabelled system has the relabelled solution, with the same estimate and variance (`IsOKSol` is
invariant under a permutation of the observations) -/
theorem C09_neighbour_order {α : Type*} [Field α] {n : ℕ} (σ : Equiv.Perm (Fin n))
    {G : Fin n → Fin n → α} {g0 w : Fin n → α} {μ : α} (h : IsOKSol G g0 w μ) (v : Fin n → α) :
    IsOKSol (fun i j => G (σ i) (σ j)) (fun i => g0 (σ i)) (fun i => w (σ i)) μ ∧
    (∑ j, w (σ j) * v (σ j)) = ∑ j, w j * v j ∧
    (∑ j, w (σ j) * g0 (σ j)) = ∑ j, w j * g0 j := by
  refine ⟨⟨fun i => ?_, ?_⟩, ?_, ?_⟩
  · have := h.1 (σ i)
    show ∑ j, G (σ i) (σ j) * w (σ j) + μ = g0 (σ i)
    rw [← this]
    congr 1
    exact Equiv.sum_comp σ (fun j => G (σ i) j * w j)
  · rw [← h.2]; exact Equiv.sum_comp σ w
  · exact Equiv.sum_comp σ (fun j => w j * v j)
  · exact Equiv.sum_comp σ (fun j => w j * g0 j)

/-- every solver option returns *a* solution; for an invertible system all solutions coincide -/
theorem C09_solver {α : Type*} [Field α] {m : Type*} [Fintype m] [DecidableEq m]
    (A B : Matrix m m α) (b x y : m → α) (hAB : A * B = 1)
    (hx : A.mulVec x = b) (hy : A.mulVec y = b) : x = y := solve_unique A B b x y hAB hx hy

example : (findClosestSparse [(3, 4), (1, 1), (5, 0), (2, 2)] 3).Perm (findClosestDense [5, 1, 2, 9, 3] 5 3) := by
  decide +kernel

example : (transformLoop [.ok 1 2, .lessPoints, .ok 3 4]).sigma = [some 2, none, some 4] := by
  decide +kernel

/-- per-call state: every `transform` call starts from fresh counters, a NaN buffer and cursor 0
(the statements as they are in the source now) -/
theorem C09_source_reset : Gen.transformSource =
    [("singular_error", "self.singular_error = 0"), ("no_points_error", "self.no_points_error = 0"),
     ("sigma", "self.sigma = np.ones(len(x[0])) * np.nan"), ("cursor", "self.__sigma_index = 0")] := by rfl

end Skg
