import SkgVerif.Lemmas.Kriging
import SkgVerif.Lemmas.KrigeAlgebra
/-!
# C09 — kriging results do not depend on how the computation is carried out
-/
namespace Skg

/-- one `transform` call over a target list is the pointwise map of the per-target computation:
the state is re-initialised at the start of every call, so nothing of an earlier call or of the
other targets of the batch influences a result -/
theorem C09_pointwise {T} (k : T → Outcome) (targets : List T) :
    (transformLoop (targets.map k)).z = targets.map (zOf ∘ k) ∧
    (transformLoop (targets.map k)).sigma = targets.map (sigOf ∘ k) := by
  rw [transformLoop_spec]
  simp [specState]

/-- any batch composition: splitting the targets into two calls gives the concatenated results -/
theorem C09_batches {T} (k : T → Outcome) (t₁ t₂ : List T) :
    (transformLoop ((t₁ ++ t₂).map k)).z =
      (transformLoop (t₁.map k)).z ++ (transformLoop (t₂.map k)).z ∧
    (transformLoop ((t₁ ++ t₂).map k)).sigma =
      (transformLoop (t₁.map k)).sigma ++ (transformLoop (t₂.map k)).sigma := by
  have e := C09_pointwise k (t₁ ++ t₂)
  rw [e.1, e.2, (C09_pointwise k t₁).1, (C09_pointwise k t₁).2, (C09_pointwise k t₂).1,
    (C09_pointwise k t₂).2]
  simp

/-- any ordering: the result for a target does not depend on its position in the batch -/
theorem C09_permutation {T} (k : T → Outcome) (ts : List T) (i j : ℕ) (hi : i < ts.length)
    (hj : j < ts.length) (h : ts[i] = ts[j]) :
    ((transformLoop (ts.map k)).z)[i]'(by rw [(C09_pointwise k ts).1]; simpa using hi) =
    ((transformLoop (ts.map k)).z)[j]'(by rw [(C09_pointwise k ts).1]; simpa using hj) := by
  simp only [(C09_pointwise k ts).1, List.getElem_map, Function.comp, h]

/-- sparse and dense neighbour search coincide whenever the stored entries of the row are
exactly the in-range entries of the dense row -/
theorem C09_sparse_dense (row : List Rat) (maxDist : Rat) (entries : List (Rat × ℕ)) (N : ℕ)
    (h : entries = candidatesDense row maxDist) :
    findClosestSparse entries N = findClosestDense row maxDist N := by
  subst h; rfl

/-- every solver option returns *a* solution; for an invertible system all solutions coincide -/
theorem C09_solver {α : Type*} [Field α] {m : Type*} [Fintype m] [DecidableEq m]
    (A B : Matrix m m α) (b x y : m → α) (hAB : A * B = 1)
    (hx : A.mulVec x = b) (hy : A.mulVec y = b) : x = y := solve_unique A B b x y hAB hx hy

example : (transformLoop [.ok 1 2, .lessPoints, .ok 3 4]).sigma = [some 2, none, some 4] := by
  decide +kernel

end Skg
