import SkgVerif.Lemmas.Scale
import SkgVerif.Lemmas.Relabel
import SkgVerif.Lemmas.CressieReal
import SkgVerif.Props.Transcribed.C10
/-!
# C10 — the experimental variogram has the invariances of its definition

`recs` are the per-pair records (distance, |value difference|) in `pdist` order;
`experimental_eq_expOf` (used in `C10_pipeline`) ties `expOf`/`countOf` to the
implementation's groups → lag classes → estimator pipeline.
-/
namespace Skg

/-- the implementation's pipeline computes `expOf` on the zipped records -/
theorem C10_pipeline {β} (est : List Rat → β) (edges : List Rat)
    (h : (0 :: edges).Pairwise (· ≤ ·)) (ds xs : List Rat) (hpos : ∀ d ∈ ds, 0 ≤ d) :
    experimental est edges.length (groups edges ds) xs = expOf est edges (ds.zip xs) :=
  experimental_eq_expOf est edges h ds xs hpos

/-- Matheron, Dowd and Genton do not depend on the order of the differences of a class -/
theorem C10_estimators_order_free {l₁ l₂ : List Rat} (h : l₁.Perm l₂) :
    matheron l₁ = matheron l₂ ∧ dowd l₁ = dowd l₂ ∧ genton l₁ = genton l₂ :=
  ⟨matheron_perm h, dowd_perm h, genton_perm h⟩

/-- reordering the observation points: the multiset of (distance, difference) records is
unchanged; hence `even` / `uniform` edges, pair counts and semivariances are identical -/
theorem C10_perm {β} {n : ℕ} (r : Relabel n) (D X : ℕ → ℕ → Rat)
    (hD : ∀ i j, D i j = D j i) (hX : ∀ i j, X i j = X j i)
    (est : List Rat → β) (hest : ∀ l₁ l₂ : List Rat, l₁.Perm l₂ → est l₁ = est l₂)
    (nl : ℕ) (m : Option Rat) :
    let recs := (pairs n).map fun p => (D p.1 p.2, X p.1 p.2)
    let recs' := (pairs n).map fun p => (D (r.σ p.1) (r.σ p.2), X (r.σ p.1) (r.σ p.2))
    recs'.Perm recs ∧
    evenEdges nl (effMax m (recs'.map (·.1))) = evenEdges nl (effMax m (recs.map (·.1))) ∧
    uniformEdges nl (effMax m (recs'.map (·.1))) (recs'.map (·.1)) =
      uniformEdges nl (effMax m (recs.map (·.1))) (recs.map (·.1)) ∧
    ∀ edges, countOf edges recs' = countOf edges recs ∧
      expOf est edges recs' = expOf est edges recs := by
  intro recs recs'
  have hp : recs'.Perm recs :=
    pairs_map_relabel r (fun i j => (D i j, X i j)) (fun i j => by simp [hD i j, hX i j])
  have hd : (recs'.map (·.1)).Perm (recs.map (·.1)) := hp.map _
  refine ⟨hp, ?_, ?_, fun edges => ⟨countOf_perm edges hp, expOf_perm est hest edges hp⟩⟩
  · rw [effMax_perm m hd]
  · rw [effMax_perm m hd, uniformEdges_perm nl _ hd]

/-- adding a constant to all values leaves every pairwise difference unchanged -/
theorem C10_shift_values (v : List Rat) (c : Rat) : pairDiffs (v.map (· + c)) = pairDiffs v :=
  pairDiffs_shift v c

/-- multiplying the values by `k` multiplies Matheron, Dowd and Genton semivariances by `k²` -/
theorem C10_scale_values (v : List Rat) (k : Rat) :
    pairDiffs (v.map (k * ·)) = (pairDiffs v).map (absR k * ·) ∧
    ∀ xs : List Rat,
      matheron (xs.map (absR k * ·)) = (matheron xs).map (k * k * ·) ∧
      dowd (xs.map (absR k * ·)) = (dowd xs).map (k * k * ·) ∧
      genton (xs.map (absR k * ·)) = (genton xs).map (k * k * ·) := by
  have hk : absR k * absR k = k * k := by rw [absR_eq_abs, abs_mul_abs_self]
  refine ⟨pairDiffs_scale v k, fun xs => ⟨?_, ?_, ?_⟩⟩
  · rw [matheron_scale, hk]
  · rw [dowd_scale _ (absR_nonneg k), hk]
  · rw [genton_scale _ (absR_nonneg k), hk]

/-- filtering a class commutes with the scaling of the differences, so whole experimental
variograms scale with the estimator -/
theorem C10_scale_values_classes (edges : List Rat) (k : ℕ) (c : Rat) (recs : List (Rat × Rat)) :
    classOf edges k (recs.map fun p => (p.1, c * p.2)) = (classOf edges k recs).map (c * ·) := by
  unfold classOf
  rw [List.filter_map, List.map_map, List.map_map]
  rfl

/-- multiplying the coordinates (hence all distances) by `s > 0` multiplies `even` and `uniform`
edges by `s` and leaves every pair in its class (relative or unset maxlag) -/
theorem C10_scale_coords (s : Rat) (hs : 0 < s) (nl : ℕ) (ds : List Rat) (ratio : Rat) :
    maxR (ds.map (s * ·)) = s * maxR ds ∧
    evenEdges nl (ratio * maxR (ds.map (s * ·))) = (evenEdges nl (ratio * maxR ds)).map (s * ·) ∧
    uniformEdges nl (ratio * maxR (ds.map (s * ·))) (ds.map (s * ·)) =
      (uniformEdges nl (ratio * maxR ds) ds).map (s * ·) ∧
    ∀ edges d, groupLoop (edges.map (s * ·)) (s * d) = groupLoop edges d := by
  have hm := maxR_scale s hs.le ds
  have e : ratio * (s * maxR ds) = s * (ratio * maxR ds) := by ring
  refine ⟨hm, ?_, ?_, fun edges d => groupLoop_scale s hs edges d⟩
  · rw [hm, e, evenEdges_scale]
  · rw [hm, e, uniformEdges_scale nl s hs]

/-- Cressie-Hawkins (needs square roots: over ℝ, on the definition generated from
`estimators.py`): order-free, and scaling the differences by `|k|` scales it by `k²` -/
theorem C10_cressie {l₁ l₂ : List ℝ} (h : l₁.Perm l₂) (k : ℝ) (xs : List ℝ) :
    Gen.cressieGenR l₁ = Gen.cressieGenR l₂ ∧
    Gen.cressieGenR (xs.map (|k| * ·)) = k ^ 2 * Gen.cressieGenR xs := by
  refine ⟨cressie_perm h, ?_⟩
  rw [cressie_scale |k| (abs_nonneg k), sq_abs]

/-- rigid motions of the plane (translation, rotation by a rational rotation matrix, reflection,
axis swap) preserve squared Euclidean distances, hence the whole distance vector -/
theorem C10_isometry2d (a b tx ty : Rat) (hrot : a * a + b * b = 1) (p q : Rat × Rat) :
    let rot := fun (z : Rat × Rat) => (a * z.1 - b * z.2 + tx, b * z.1 + a * z.2 + ty)
    let refl := fun (z : Rat × Rat) => (-z.1, z.2)
    let swp := fun (z : Rat × Rat) => (z.2, z.1)
    let sq := fun (u w : Rat × Rat) => (u.1 - w.1) * (u.1 - w.1) + (u.2 - w.2) * (u.2 - w.2)
    sq (rot p) (rot q) = sq p q ∧ sq (refl p) (refl q) = sq p q ∧ sq (swp p) (swp q) = sq p q := by
  intro rot refl swp sq
  refine ⟨?_, ?_, ?_⟩
  · simp only [rot, sq]
    have : (a * p.1 - b * p.2 + tx - (a * q.1 - b * q.2 + tx)) * (a * p.1 - b * p.2 + tx - (a * q.1 - b * q.2 + tx))
        + (b * p.1 + a * p.2 + ty - (b * q.1 + a * q.2 + ty)) * (b * p.1 + a * p.2 + ty - (b * q.1 + a * q.2 + ty))
        = (a * a + b * b) * ((p.1 - q.1) * (p.1 - q.1) + (p.2 - q.2) * (p.2 - q.2)) := by ring
    rw [this, hrot, one_mul]
  · simp only [refl, sq]; ring
  · simp only [swp, sq]; ring

/-- non-vacuity: a genuine relabelling and symmetric pair functions -/
example : ∃ r : Relabel 3, r.σ 0 = 2 :=
  ⟨⟨fun i => (i + 2) % 3, fun i => (i + 1) % 3, fun i h => by omega, fun i h => by omega,
    fun i h => by omega, fun i h => by omega⟩, rfl⟩

end Skg
