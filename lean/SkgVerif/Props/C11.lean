import SkgVerif.Lemmas.PermInv
import SkgVerif.Gen.Source
import SkgVerif.Props.Transcribed.C11
/-!
# C11 — how distances are supplied never changes the variogram

Sparse storage is modelled as *any* enumeration `stored` of the records whose distance is at
most the truncation distance `M` (the entry order of the CSR lower triangle does not matter).
-/
namespace Skg

theorem filter_le_of_le (ds : List Rat) (m M : Rat) (h : m ≤ M) :
    (ds.filter (· ≤ M)).filter (· ≤ m) = ds.filter (· ≤ m) := by
  rw [List.filter_filter]
  apply List.filter_congr
  intro x _
  by_cases hx : x ≤ m
  · simp [hx, le_trans hx h]
  · simp [hx]

/-- identical pair counts and semivariances for every edge list that stays within `M` -/
theorem C11_storage_classes {β} (est : List Rat → β)
    (hest : ∀ l₁ l₂ : List Rat, l₁.Perm l₂ → est l₁ = est l₂)
    (recs stored : List (Rat × Rat)) (M : Rat)
    (hst : stored.Perm (recs.filter fun p => p.1 ≤ M))
    (edges : List Rat) (hle : ∀ e ∈ edges, e ≤ M) :
    countOf edges stored = countOf edges recs ∧ expOf est edges stored = expOf est edges recs := by
  have key : ∀ k, k < edges.length →
      (classOf edges k stored).Perm (classOf edges k recs) := by
    intro k hk
    refine (classOf_perm edges k hst).trans ?_
    unfold classOf
    rw [List.filter_filter]
    have : (recs.filter fun a => (inClass edges k a.1 && decide (a.1 ≤ M))) =
        recs.filter fun p => inClass edges k p.1 := by
      apply List.filter_congr
      intro p _
      by_cases hin : inClass edges k p.1 = true
      · have hlt : p.1 < edges.getD k 0 := by
          unfold inClass at hin; exact (of_decide_eq_true hin).2
        have hek : edges.getD k 0 ≤ M := by
          rw [List.getD_eq_getElem?_getD, List.getElem?_eq_getElem hk]
          exact hle _ (List.getElem_mem hk)
        simp [hin, le_of_lt (lt_of_lt_of_le hlt hek)]
      · simp [hin]
    rw [this]
  constructor
  · unfold countOf
    apply List.map_congr_left
    intro k hk
    exact (key k (List.mem_range.1 hk)).length_eq
  · unfold expOf
    apply List.map_congr_left
    intro k hk
    exact hest _ _ (key k (List.mem_range.1 hk))

/-- identical `even` / `uniform` edges, provided the truncation distance is at least the largest
distance or itself an occurring distance (otherwise see `C11_lastedge_counterexample`) -/
theorem C11_storage_edges_partial (ds sds : List Rat) (M : Rat) (nl : ℕ)
    (hst : sds.Perm (ds.filter (· ≤ M))) (hM : maxR ds ≤ M ∨ M ∈ ds) :
    effMax (some M) sds = effMax (some M) ds ∧
    evenEdges nl (effMax (some M) sds) = evenEdges nl (effMax (some M) ds) ∧
    uniformEdges nl (effMax (some M) sds) sds = uniformEdges nl (effMax (some M) ds) ds := by
  have heff : effMax (some M) sds = effMax (some M) ds := by
    rcases hM with h | h
    · have hall : ds.filter (· ≤ M) = ds := by
        rw [List.filter_eq_self]
        intro x hx; simpa using le_trans (le_maxR ds x hx) h
      rw [hall] at hst
      exact effMax_perm _ hst
    · have hmem : M ∈ sds := hst.mem_iff.2 (List.mem_filter.2 ⟨h, by simp⟩)
      have hmax : maxR sds = M := by
        apply le_antisymm
        · have hne : sds ≠ [] := List.ne_nil_of_mem hmem
          have := hst.mem_iff.1 (maxR_mem sds hne)
          simpa using (List.mem_filter.1 this).2
        · exact le_maxR sds M hmem
      have hle : M ≤ maxR ds := le_maxR ds M h
      simp only [effMax, hmax, gt_iff_lt, lt_irrefl, if_false, not_lt.2 hle]
  refine ⟨heff, by rw [heff], ?_⟩
  rw [heff]
  have hm : effMax (some M) ds ≤ M := by
    simp only [effMax]; split_ifs with h
    · exact le_of_lt h
    · exact le_refl _
  unfold uniformEdges
  rw [sortR_congr (hst.filter _), filter_le_of_le ds _ M hm]

/-- D9: with a truncation distance strictly between two occurring distances the stored vector
ends below it and the `even` edges differ from the dense ones -/
theorem C11_lastedge_counterexample :
    let ds : List Rat := [1, 2, 4, 10]
    let sds := ds.filter (· ≤ 3)
    evenEdges 2 (effMax (some 3) ds) = [3/2, 3] ∧ evenEdges 2 (effMax (some 3) sds) = [1, 2] := by
  refine ⟨by decide +kernel, by decide +kernel⟩

/-- D10 (repaired by `fix:` f6a7b21): a storage that loses the zero-distance records is not a
permutation of the records within `M`, and the first class loses pairs -/
theorem C11_zero_counterexample :
    let recs : List (Rat × Rat) := [(0, 1), (1, 2), (2, 3)]
    let dropped := recs.filter fun p => p.1 ≠ 0
    countOf [1, 3] recs = [1, 2] ∧ countOf [1, 3] dropped = [0, 2] := by
  refine ⟨by decide +kernel, by decide +kernel⟩

/-- the sparse route takes the strict lower triangle of the stored matrix with explicit zeros kept (`sparse.tril(k=-1)`), and the same pipeline statements as the dense route -/
theorem C11_source_storage : Gen.sparseTriangleSource =
    [
    ("returns", "return sparse.tril(self.distance_matrix, k=-1, format='csr')")] := by rfl

end Skg
