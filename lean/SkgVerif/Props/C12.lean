import SkgVerif.Lemmas.Direction
import SkgVerif.Model.Grouping
import SkgVerif.Props.Transcribed.C12
/-!
# C12 — directional variograms use exactly the point pairs inside the search area

`Gen.pairAngle`, `Gen.compassMask`, `Gen.triangleMask` are generated from
`DirectionalVariogram.py`.  `(dx, dy)` is the pair vector, `d` its Euclidean length,
`az`, `tol` in degrees, azimuth direction `(cos a, −sin a)` (0° = East, clockwise positive).
-/
open Real

namespace Skg

/-- the stored pair angle is the polar angle of the pair vector -/
theorem C12_angle (dx dy d : ℝ) (hd : 0 < d) (h : d ^ 2 = dx ^ 2 + dy ^ 2) :
    let θ := Gen.pairAngle dx dy d
    Real.cos θ * d = dx ∧ Real.sin θ * d = dy ∧ -π ≤ θ ∧ θ ≤ π := by
  intro θ
  have hx1 : -1 ≤ dx / d := by
    rw [le_div_iff₀ hd]; nlinarith [sq_nonneg dy, sq_nonneg (dx + d)]
  have hx2 : dx / d ≤ 1 := by
    rw [div_le_iff₀ hd]; nlinarith [sq_nonneg dy, sq_nonneg (dx - d)]
  have hsq : Real.sqrt (1 - (dx / d) ^ 2) = |dy| / d := by
    have : 1 - (dx / d) ^ 2 = (|dy| / d) ^ 2 := by
      rw [div_pow, div_pow, sq_abs]; field_simp; linarith
    rw [this, Real.sqrt_sq (div_nonneg (abs_nonneg _) hd.le)]
  have h0 := Real.arccos_nonneg (dx / d)
  have hpi := Real.arccos_le_pi (dx / d)
  simp only [θ, Gen.pairAngle]
  split_ifs with hy
  · refine ⟨?_, ?_, by linarith [pi_pos], hpi⟩
    · rw [Real.cos_arccos hx1 hx2]; field_simp
    · rw [Real.sin_arccos, hsq, abs_of_nonneg hy]; field_simp
  · have hy' : dy < 0 := not_le.1 hy
    refine ⟨?_, ?_, by linarith, by linarith [pi_pos]⟩
    · rw [Real.cos_neg, Real.cos_arccos hx1 hx2]; field_simp
    · rw [Real.sin_neg, Real.sin_arccos, hsq, abs_of_neg hy']; field_simp

/-- compass search area: a pair is selected iff the unsigned angle between the line through the
two points and the azimuth direction is at most tolerance/2 -/
theorem C12_compass (az tol bw θ d : ℝ) (hθ : -π ≤ θ ∧ θ ≤ π) (haz : -180 ≤ az ∧ az ≤ 180) :
    Gen.compassMask az tol bw θ d ↔ distPi (θ + az * π / 180) ≤ tol / 2 * π / 180 := by
  rw [compassMask_eq, fold_abs_eq]
  have hpi := pi_pos
  rw [abs_le]
  constructor <;> nlinarith [hθ.1, hθ.2, haz.1, haz.2]

/-- triangle search area: additionally the perpendicular offset of the pair from the azimuth
line, `|d · sin(θ + a)| = |dx·sin a + dy·cos a|`, is at most bandwidth/2 -/
theorem C12_triangle (az tol bw θ d dx dy : ℝ) (hθ : -π ≤ θ ∧ θ ≤ π) (haz : -180 ≤ az ∧ az ≤ 180)
    (hc : Real.cos θ * d = dx) (hs : Real.sin θ * d = dy) :
    Gen.triangleMask az tol bw θ d ↔
      (distPi (θ + az * π / 180) ≤ tol / 2 * π / 180 ∧
       |dx * Real.sin (az * π / 180) + dy * Real.cos (az * π / 180)| ≤ bw / 2) := by
  rw [triangleMask_eq, fold_abs_eq]
  · have e : abs (d * Real.sin (abs (θ + az * π / 180))) =
        |dx * Real.sin (az * π / 180) + dy * Real.cos (az * π / 180)| := by
      rw [abs_mul, abs_sin_abs, ← abs_mul, Real.sin_add, ← hc, ← hs]
      congr 1; ring
    rw [e]
  · have hpi := pi_pos
    rw [abs_le]
    constructor <;> nlinarith [hθ.1, hθ.2, haz.1, haz.2]

/-- exchanging the two points turns the pair vector around: the angle changes by ±π -/
theorem pairAngle_swap (dx dy d : ℝ) (hd : 0 < d) (h : d ^ 2 = dx ^ 2 + dy ^ 2) :
    ∃ k : ℤ, Gen.pairAngle (-dx) (-dy) d = Gen.pairAngle dx dy d + k * π := by
  simp only [Gen.pairAngle, neg_div, Real.arccos_neg]
  rcases lt_trichotomy dy 0 with hy | hy | hy
  · refine ⟨1, ?_⟩
    have h1 : ¬ dy ≥ 0 := not_le.2 hy
    have h2 : -dy ≥ 0 := by linarith
    simp only [h1, h2, if_true, if_false]; push_cast; ring
  · subst hy
    have hsq : d ^ 2 = dx ^ 2 := by simpa using h
    simp only [neg_zero, ge_iff_le, le_refl, if_true]
    rcases sq_eq_sq_iff_eq_or_eq_neg.1 hsq with e | e
    · -- dx = d: θ = 0, swapped π
      have : dx / d = 1 := by rw [← e]; exact div_self hd.ne'
      rw [this, Real.arccos_one]; exact ⟨1, by push_cast; ring⟩
    · have : dx / d = -1 := by
        have : dx = -d := by linarith
        rw [this, neg_div, div_self hd.ne']
      rw [this, Real.arccos_neg_one]; exact ⟨-1, by push_cast; ring⟩
  · refine ⟨-1, ?_⟩
    have h1 : dy ≥ 0 := hy.le
    have h2 : ¬ -dy ≥ 0 := by simp only [ge_iff_le, not_le]; linarith
    simp only [h1, h2, if_true, if_false]; push_cast; ring

/-- the decision does not depend on the order of the two points -/
theorem C12_order_free (az tol : ℝ) (dx dy d : ℝ) (hd : 0 < d) (h : d ^ 2 = dx ^ 2 + dy ^ 2) :
    distPi (Gen.pairAngle (-dx) (-dy) d + az * π / 180) =
      distPi (Gen.pairAngle dx dy d + az * π / 180) ∧
    |(-dx) * Real.sin (az * π / 180) + (-dy) * Real.cos (az * π / 180)| =
      |dx * Real.sin (az * π / 180) + dy * Real.cos (az * π / 180)| := by
  obtain ⟨k, hk⟩ := pairAngle_swap dx dy d hd h
  constructor
  · rw [hk]
    have : Gen.pairAngle dx dy d + k * π + az * π / 180 =
        (Gen.pairAngle dx dy d + az * π / 180) + k * π := by ring
    rw [this, distPi_add_int_mul_pi]
  · rw [← abs_neg]; congr 1; ring

/-- masking: pairs outside the search area are set to "no class"; lag classes of the masked
grouping are exactly the lag classes of the selected pairs -/
def maskGroups (gs : List Int) (mask : List Bool) : List Int :=
  List.zipWith (fun g b => if b then g else -1) gs mask

def pick {α} (mask : List Bool) (l : List α) : List α := ((l.zip mask).filter (·.2)).map (·.1)

theorem C12_experimental {α} (k : ℕ) : ∀ (gs : List Int) (mask : List Bool) (xs : List α),
    gs.length = mask.length → xs.length = mask.length →
    lagClass (maskGroups gs mask) xs k = lagClass (pick mask gs) (pick mask xs) k := by
  intro gs
  induction gs with
  | nil => intro mask xs _ _; simp [maskGroups, lagClass, pick]
  | cons g gs ih =>
    intro mask xs h1 h2
    cases mask with
    | nil => simp at h1
    | cons b mask =>
      cases xs with
      | nil => simp at h2
      | cons x xs =>
        have ih' := ih mask xs (by simpa using h1) (by simpa using h2)
        unfold lagClass maskGroups pick at ih' ⊢
        cases b
        · have hne : ((-1 : Int) == (k : Int)) = false := by
            simp only [beq_eq_false_iff_ne, ne_eq]; omega
          simpa [List.filter_cons, hne] using ih'
        · by_cases hg : (g == (k : Int)) = true
          · simpa [List.filter_cons, hg] using ih'
          · simpa [List.filter_cons, hg] using ih'

/-- non-vacuity: a pair vector meeting the hypotheses -/
example : (0:ℝ) < 5 ∧ (5:ℝ) ^ 2 = 3 ^ 2 + 4 ^ 2 := by norm_num

end Skg
