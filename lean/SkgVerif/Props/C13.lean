import SkgVerif.Lemmas.Direction
import SkgVerif.Props.Transcribed.C13
/-!
# C13 — directional variograms obey the symmetries of direction
-/
open Real

namespace Skg

/-- a tolerance of 180° selects every (non-degenerate) pair: the isotropic variogram -/
theorem C13_isotropic (az bw θ d : ℝ) (hθ : -π ≤ θ ∧ θ ≤ π) (haz : -180 ≤ az ∧ az ≤ 180) :
    Gen.compassMask az 180 bw θ d := by
  rw [compassMask_eq, fold_abs_eq]
  · have : (180 : ℝ) / 2 * π / 180 = π / 2 := by ring
    rw [this]; exact distPi_le_half _
  · have hpi := pi_pos
    rw [abs_le]
    constructor <;> nlinarith [hθ.1, hθ.2, haz.1, haz.2]

/-- ... and so does the triangular search area once its bandwidth limits nothing: half the
bandwidth at least the pair's distance (e.g. any bandwidth of twice the largest distance or more).
A bandwidth that is silently reduced below that - clipped to the largest distance, say - loses the
pairs whose offset from the azimuth line exceeds half of it (`C13_triangle_band_limits`). -/
theorem C13_isotropic_triangle (az bw θ d : ℝ) (hθ : -π ≤ θ ∧ θ ≤ π) (haz : -180 ≤ az ∧ az ≤ 180)
    (hd : 0 ≤ d) (hbw : d ≤ bw / 2) :
    Gen.triangleMask az 180 bw θ d := by
  rw [triangleMask_eq]
  refine ⟨(compassMask_eq az 180 bw θ d).mp (C13_isotropic az bw θ d hθ haz), ?_⟩
  rw [abs_mul, abs_of_nonneg hd]
  calc d * abs (Real.sin (abs (θ + az * π / 180))) ≤ d * 1 :=
        mul_le_mul_of_nonneg_left (Real.abs_sin_le_one _) hd
    _ ≤ bw / 2 := by linarith

/-- the band criterion is a real limit below that: a pair at right angles to the azimuth line whose
distance exceeds half the bandwidth is not selected, whatever the tolerance -/
theorem C13_triangle_band_limits (tol bw d : ℝ) (hd : bw / 2 < d) :
    ¬ Gen.triangleMask 0 tol bw (π / 2) d := by
  rw [triangleMask_eq]
  intro h
  have h2 := h.2
  have hpos : 0 < π / 2 := by positivity
  simp only [zero_mul, zero_div, add_zero, abs_of_pos hpos, Real.sin_pi_div_two, mul_one] at h2
  have : d ≤ |d| := le_abs_self d
  linarith

/-- azimuths that differ by 180° select the same pairs (angle criterion and band criterion) -/
theorem C13_opposite (az θ d : ℝ) :
    distPi (θ + (az + 180) * π / 180) = distPi (θ + az * π / 180) ∧
    |d * Real.sin (θ + (az + 180) * π / 180)| = |d * Real.sin (θ + az * π / 180)| := by
  have e : θ + (az + 180) * π / 180 = (θ + az * π / 180) + π := by ring
  rw [e, distPi_add_pi, Real.sin_add_pi, mul_neg, abs_neg]
  exact ⟨rfl, rfl⟩

/-- rotating all coordinates by φ (counter-clockwise) turns every pair angle by φ (modulo 2π)
and the clockwise-positive azimuth by −φ: the decision is unchanged -/
theorem C13_rotation (az θ d φdeg : ℝ) (k : ℤ) :
    let θ' := θ + φdeg * π / 180 + k * (2 * π)
    let az' := az - φdeg
    distPi (θ' + az' * π / 180) = distPi (θ + az * π / 180) ∧
    |d * Real.sin (θ' + az' * π / 180)| = |d * Real.sin (θ + az * π / 180)| := by
  intro θ' az'
  have e : θ' + az' * π / 180 = (θ + az * π / 180) + ((2 * k : ℤ) : ℝ) * π := by
    simp only [θ', az']; push_cast; ring
  constructor
  · rw [e, distPi_add_int_mul_pi]
  · have e2 : θ' + az' * π / 180 = (θ + az * π / 180) + k * (2 * π) := by
      simp only [θ', az']; ring
    rw [e2, Real.sin_add_int_mul_two_pi]

/-- sectors that tile the half circle: for `m` sectors of width `π/m` with azimuth offsets
`j·π/m`, every direction lies in at least one sector -/
theorem C13_tiling (m : ℕ) (hm : 0 < m) (x : ℝ) :
    ∃ j : ℕ, j < m ∧ distPi (x + j * (π / m)) ≤ π / (2 * m) := by
  have hpi := pi_pos
  have hm' : (0 : ℝ) < m := by exact_mod_cast hm
  have hw : 0 < π / m := div_pos hpi hm'
  -- nearest multiple of the sector width
  set q : ℤ := round (x / (π / m)) with hq
  have hnear : |x - q * (π / m)| ≤ π / (2 * m) := by
    have h1 : |x / (π / m) - q| ≤ 1 / 2 := abs_sub_round _
    have e : x - q * (π / m) = (π / m) * (x / (π / m) - q) := by field_simp
    rw [e, abs_mul, abs_of_pos hw]
    calc π / m * |x / (π / m) - q| ≤ π / m * (1 / 2) := mul_le_mul_of_nonneg_left h1 hw.le
      _ = π / (2 * m) := by field_simp
  -- j ≡ −q (mod m)
  refine ⟨((-q) % (m : ℤ)).toNat, ?_, ?_⟩
  · have h0 : 0 ≤ (-q) % (m : ℤ) := Int.emod_nonneg _ (by exact_mod_cast hm.ne')
    have h1 : (-q) % (m : ℤ) < m := Int.emod_lt_of_pos _ (by exact_mod_cast hm)
    omega
  · have h0 : 0 ≤ (-q) % (m : ℤ) := Int.emod_nonneg _ (by exact_mod_cast hm.ne')
    have hj : ((((-q) % (m : ℤ)).toNat : ℕ) : ℝ) = (((-q) % (m : ℤ) : ℤ) : ℝ) := by
      have : (((-q) % (m : ℤ)).toNat : ℤ) = (-q) % (m : ℤ) := Int.toNat_of_nonneg h0
      exact_mod_cast congrArg (fun z : ℤ => (z : ℝ)) this
    rw [hj]
    -- (-q) % m = -q - m * ((-q) / m)
    have hdiv : (-q) % (m : ℤ) = -q - (m : ℤ) * ((-q) / (m : ℤ)) := by
      have := Int.emod_add_mul_ediv (-q) (m : ℤ)
      linarith
    set t : ℤ := (-q) / (m : ℤ)
    have e : x + (((-q) % (m : ℤ) : ℤ) : ℝ) * (π / m) = (x - q * (π / m)) + ((-t : ℤ) : ℝ) * π := by
      rw [hdiv]; push_cast; field_simp; ring
    rw [e, distPi_add_int_mul_pi]
    exact le_trans (by simpa using distPi_le (x - q * (π / m)) 0) hnear

example : distPi (π / 4 + π) = distPi (π / 4) := distPi_add_pi _

end Skg
