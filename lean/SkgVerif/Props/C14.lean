import SkgVerif.Lemmas.SpaceTime
import SkgVerif.Gen.Tables
import SkgVerif.Gen.Source
import SkgVerif.Props.Transcribed.C14
/-!
# C14 — space-time experimental variogram = estimator over exactly each cell's pairs
-/
namespace Skg

/-- per-axis grouping uses open-closed intervals: class `k` iff `edge[k-1] < d ≤ edge[k]`,
no class iff `d` lies beyond every edge (for `d > 0`) -/
theorem C14_group_spec (edges : List Rat) (h : (0 :: edges).Pairwise (· ≤ ·)) (d : Rat) (hd : 0 < d) :
    (∃ k, ∃ hk : k < edges.length, (0 :: edges)[k]'(by simp; omega) < d ∧ d ≤ edges[k] ∧
        groupLoopOC edges d = (k : Int)) ∨
    ((∀ e ∈ edges, e < d) ∧ groupLoopOC edges d = -1) := by
  have hc := chained_intervals edges 0 (mono_of_pairwise edges 0 h)
  rcases groupAuxOC_spec d (intervals edges) 0 0 (-1) hc hd with ⟨k, hk, ha, hb, hg⟩ | ⟨hall, hg⟩
  · left
    have hk' : k < edges.length := by simpa [intervals] using hk
    refine ⟨k, hk', ?_, ?_, ?_⟩
    · have := intervals_get edges k hk'; rw [this] at ha; exact ha
    · have := intervals_get edges k hk'; rw [this] at hb; exact hb
    · unfold groupLoopOC; rw [hg]; simp
  · right
    refine ⟨?_, hg⟩
    intro e he
    obtain ⟨k, hk, rfl⟩ := List.getElem_of_mem he
    have hm : (intervals edges)[k]'(by simpa [intervals] using hk) ∈ intervals edges := List.getElem_mem _
    have := hall _ hm
    rw [intervals_get edges k hk] at this
    exact this

/-- the table is ordered space-major: entry `i·nt + j` is the estimator over exactly the
differences `|v[a,s] − v[b,t]|` whose location pair is in space class `i` and whose time-step
pair is in time class `j` (the estimator of the empty list — NaN — for an empty cell) -/
theorem C14_cell {β} (est : List Rat → β) (nx nt : ℕ) (hnt : 0 < nt) (xg tg : List Int)
    (D : List (List Rat)) (i j : ℕ) (hi : i < nx) (hj : j < nt) :
    (stExperimental est nx nt xg tg D)[i * nt + j]? = some (est (stCell xg tg D i j)) := by
  unfold stExperimental
  rw [flatMap_range_eq (fun i j => est (stCell xg tg D i j)) nt hnt nx]
  have hk : i * nt + j < nx * nt := by
    calc i * nt + j < i * nt + nt := by omega
      _ = (i + 1) * nt := by ring
      _ ≤ nx * nt := Nat.mul_le_mul_right _ hi
  rw [List.getElem?_map, List.getElem?_range hk]
  have h1 : (i * nt + j) / nt = i := by
    rw [Nat.add_comm, Nat.add_mul_div_right _ _ hnt, Nat.div_eq_of_lt hj]; simp
  have h2 : (i * nt + j) % nt = j := by
    rw [Nat.add_comm, Nat.add_mul_mod_self_right, Nat.mod_eq_of_lt hj]
  simp [h1, h2]

/-- a cell consists of exactly the selected rows' selected columns -/
theorem C14_cell_members (xg tg : List Int) (D : List (List Rat)) (i j : ℕ) :
    stCell xg tg D i j =
      (((xg.zip D).filter (fun p => p.1 == (i : Int))).map (·.2)).flatMap
        fun row => ((tg.zip row).filter (fun p => p.1 == (j : Int))).map (·.2) := rfl

/-- the marginal variograms are the corresponding column / row of the table -/
theorem C14_marginal {β} (est : List Rat → β) (nx nt : ℕ) (hnt : 0 < nt) (xg tg : List Int)
    (D : List (List Rat)) (lag : ℕ) :
    (lag < nt → ∀ i (hi : i < nx),
      (stMarginalSpace est nx xg tg D lag)[i]? = (stExperimental est nx nt xg tg D)[i * nt + lag]?) ∧
    (lag < nx → ∀ j (hj : j < nt),
      (stMarginalTime est nt xg tg D lag)[j]? = (stExperimental est nx nt xg tg D)[lag * nt + j]?) := by
  constructor
  · intro hl i hi
    rw [C14_cell est nx nt hnt xg tg D i lag hi hl]
    simp [stMarginalSpace, List.getElem?_range hi]
  · intro hl j hj
    rw [C14_cell est nx nt hnt xg tg D lag j hl hj]
    simp [stMarginalTime, List.getElem?_range hj]

/-- the whole table from the raw inputs (space edges / distances, time edges / distances, value
table): entry `i·nt + j` is the estimator over exactly the `|v[a,s] − v[b,t]|` of the location pairs
`a<b` with `xedge[i-1] < d_x ≤ xedge[i]` and the time-step pairs `s<t` with
`tedge[j-1] < d_t ≤ tedge[j]`; pairs at distance 0 (co-located stations) are in no class -/
theorem C14_table {β} (est : List Rat → β) (xe te xd td : List Rat) (v : List (List Rat))
    (hx : (0 :: xe).Pairwise (· ≤ ·)) (ht : (0 :: te).Pairwise (· ≤ ·))
    (hxd : ∀ d ∈ xd, 0 ≤ d) (htd : ∀ d ∈ td, 0 ≤ d) (hnt : 0 < te.length)
    (i j : ℕ) (hi : i < xe.length) (hj : j < te.length) :
    (stExperimental est xe.length te.length (groupsOC xe xd) (groupsOC te td) (stDiff v))[i * te.length + j]? =
      some (est ((((xd.zip (stDiff v)).filter (fun p => inClassOC xe i p.1)).map (·.2)).flatMap
        fun row => ((td.zip row).filter (fun p => inClassOC te j p.1)).map (·.2))) ∧
    groupLoopOC xe 0 = -1 ∧ groupLoopOC te 0 = -1 := by
  refine ⟨?_, groupLoopOC_zero xe hx, groupLoopOC_zero te ht⟩
  rw [C14_cell est xe.length te.length hnt _ _ _ i j hi hj]
  unfold stCell
  rw [lagClassOC_spec xe hx i hi xd (stDiff v) hxd]
  congr 2
  have : (fun row : List Rat => lagClass (groupsOC te td) row j) =
      fun row => ((td.zip row).filter (fun p => inClassOC te j p.1)).map (·.2) := by
    funext row
    exact lagClassOC_spec te ht j hj td row htd
  rw [this]

example : groupsOC [1, 2, 3] [0, 1, 3/2, 3, 4] = [-1, 0, 1, 2, -1] := by decide +kernel


/-- the per-axis loop in the source (`SpaceTimeVariogram._calc_group`) uses the open-closed
intervals `groupAuxOC` transcribes -/
theorem C14_source_loop :
    Gen.stGroupLoopLower = ">" ∧ Gen.stGroupLoopUpper = "<=" ∧
    Gen.stGroupLoopIter = "enumerate(zip([0] + list(bins), bins))" ∧
    Gen.stGroupLoopInit = ["np.ones(len(d), dtype=int) * -1"] := by decide

/-- `_calc_diff` (quadruple loop over `xi < xj`, `ti < tj`, entry `|v[xi,ti] − v[xj,tj]|`), `lag_classes` (space-major double loop) and `_get_member` as they are in the source now -/
theorem C14_source_table : Gen.stTableSource =
    [
    ("diff_loops", "xi in range(outer) | xj in range(outer) | ti in range(inner) | tj in range(inner)"),
    ("diff_entry", "self._diff[xidx][tidx] = np.abs(v[xi, ti] - v[xj, tj])"),
    ("diff_guards", "xi < xj | ti < tj"),
    ("cell_loops", "x in range(self.x_lags) | t in range(self.t_lags)"),
    ("cell_members", "(yield diff_select(x, t).flatten())"),
    ("member", "return self._diff[np.where(x_idxs)[0]][:, np.where(t_idxs)[0]].flatten()")] := by rfl

end Skg
