import SkgVerif.Lemmas.SpaceTime
import SkgVerif.Gen.STModelsReal
import SkgVerif.Gen.STModelsExec
import SkgVerif.Gen.Tables
import Mathlib.Tactic
import SkgVerif.Props.Transcribed.C15
/-!
# C15 — the space-time model is fitted to each cell at its own space and time lag
-/
namespace Skg

/-- the generated model formulas are the documented combinations of the marginal models -/
theorem C15_formulas (h t : ℝ) (Vx Vt : ℝ → ℝ) (k1 k2 k3 Cx Ct : ℝ) :
    Gen.stSum (h, t) Vx Vt = Vx h + Vt t ∧
    Gen.stProduct (h, t) Vx Vt Cx Ct = Cx * Vt t + Ct * Vx h - Vx h * Vt t ∧
    Gen.stProductSum (h, t) Vx Vt k1 k2 k3 Cx Ct =
      (k2 + k1 * Ct) * Vx h + (k3 + k1 * Cx) * Vt t - k1 * Vx h * Vt t := by
  refine ⟨rfl, rfl, ?_⟩
  simp only [Gen.stProductSum]

theorem C15_signatures :
    Gen.stSum_args = ["lags", "Vx", "Vt"] ∧ Gen.stProduct_args = ["lags", "Vx", "Vt", "Cx", "Ct"] ∧
    Gen.stProductSum_args = ["lags", "Vx", "Vt", "k1", "k2", "k3", "Cx", "Ct"] := by decide

/-- the product-sum model with `k1 = 0` degenerates to a weighted sum, with `k2 = k3 = 0`,
`k1 = 1` to the product model (sanity of the documented family) -/
theorem C15_family (h t : ℝ) (Vx Vt : ℝ → ℝ) (Cx Ct : ℝ) :
    Gen.stProductSum (h, t) Vx Vt 0 1 1 Cx Ct = Gen.stSum (h, t) Vx Vt ∧
    Gen.stProductSum (h, t) Vx Vt 1 0 0 Cx Ct =
      Ct * Vx h + Cx * Vt t - Vx h * Vt t := by
  constructor <;> simp only [Gen.stProductSum, Gen.stSum] <;> ring

/-- every sample handed to the optimiser pairs the semivariance of table entry `k = i·nt + j`
with the space lag of class `i` and the time lag of class `j` — the lags of its own cell
(`C14_cell`) -/
theorem C15_pairing (xb tb : List Rat) (z : List (Option Rat)) (i j : ℕ) (hj : j < tb.length)
    (zv : Rat) (hz : z[i * tb.length + j]? = some (some zv)) :
    (xb.getD i 0, tb.getD j 0, zv) ∈ stSamples xb tb z := by
  unfold stSamples
  rw [List.mem_filterMap]
  refine ⟨(some zv, i * tb.length + j), ?_, ?_⟩
  · rw [List.mem_zipIdx_iff_getElem?]; simpa using hz
  · have hpos : 0 < tb.length := by omega
    have h1 : (i * tb.length + j) / tb.length = i := by
      rw [Nat.add_comm, Nat.add_mul_div_right _ _ hpos, Nat.div_eq_of_lt hj]; simp
    have h2 : (i * tb.length + j) % tb.length = j := by
      rw [Nat.add_comm, Nat.add_mul_mod_self_right, Nat.mod_eq_of_lt hj]
    simp [h1, h2]

/-- NaN cells are ignored: as many samples as non-NaN cells -/
theorem C15_nan_ignored (xb tb : List Rat) (z : List (Option Rat)) :
    (stSamples xb tb z).length = (z.filterMap id).length := by
  unfold stSamples
  induction z using List.reverseRecOn with
  | nil => simp
  | append_singleton z a ih =>
    rw [List.zipIdx_append, List.filterMap_append, List.filterMap_append, List.length_append,
      List.length_append, ih]
    cases a <;> simp

/-- D2 (repaired by a `fix:` commit): the time-major flatten of `meshgrid(xbins, tbins)` pairs
table entries with the lags of *other* cells (2 space × 3 time classes) -/
theorem C15_pairing_defect :
    let xb : List Rat := [10, 20]
    let tb : List Rat := [1, 2, 3]
    let z : List (Option Rat) := [some 5, some 6, some 7, some 8, some 9, some 11]
    stSamples xb tb z = [(10, 1, 5), (10, 2, 6), (10, 3, 7), (20, 1, 8), (20, 2, 9), (20, 3, 11)] ∧
    stSamplesDefect xb tb z = [(10, 1, 5), (20, 1, 6), (10, 2, 7), (20, 2, 8), (10, 3, 9), (20, 3, 11)] := by
  refine ⟨by decide +kernel, by decide +kernel⟩

/-- the source pairs the space-major table with the transposed (space-major) lag grids -/
theorem C15_source_pairing :
    Gen.stFitFlattenX = "xx.T.flatten()" ∧ Gen.stFitFlattenT = "yy.T.flatten()" ∧
    Gen.stFitGrids = "self.meshbins" ∧ Gen.stFitTable = "self.experimental" ∧
    Gen.stMeshbins = "return np.meshgrid(self.xbins, self.tbins)" := by decide

end Skg
