import SkgVerif.Lemmas.PermInv
import SkgVerif.Gen.Source
import SkgVerif.Props.Transcribed.C16
/-!
# C16 — cross-variograms use products of paired differences; the table is symmetric
-/
namespace Skg

/-- the k-th cross difference is `|Δz₁|·|Δz₂|` of the k-th point pair -/
theorem C16_product (v w : List Rat) (hlen : v.length = w.length) (k : ℕ)
    (hk : k < (pairs v.length).length) :
    ∃ i j, (pairs v.length)[k] = (i, j) ∧ i < j ∧ j < v.length ∧
      (crossDiffs v w)[k]'(by simp [crossDiffs, pairDiffs, ← hlen]; exact hk) =
        absR (v.getD i 0 - v.getD j 0) * absR (w.getD i 0 - w.getD j 0) := by
  refine ⟨(pairs v.length)[k].1, (pairs v.length)[k].2, rfl, ?_, ?_, ?_⟩
  · exact ((mem_pairs _ _).1 (List.getElem_mem hk)).1
  · exact ((mem_pairs _ _).1 (List.getElem_mem hk)).2
  · simp [crossDiffs, pairDiffs, ← hlen]

/-- swapping the two variables changes nothing: the difference vectors coincide, hence so do
lag classes, counts and semivariances of entries (i, j) and (j, i) -/
theorem C16_symmetric (v w : List Rat) : crossDiffs v w = crossDiffs w v := by
  unfold crossDiffs
  rw [List.zipWith_comm]
  congr 1
  funext a b; exact mul_comm b a

theorem C16_symmetric_table {β} (est : List Rat → β) (edges ds : List Rat) (v w : List Rat) :
    experimental est edges.length (groups edges ds) (crossDiffs v w) =
    experimental est edges.length (groups edges ds) (crossDiffs w v) := by
  rw [C16_symmetric]

/-- model of `cross_variograms`: entry (i, j) is built from columns i and j — the ordinary
variogram of column i on the diagonal -/
def crossTable {β} (est : List Rat → β) (edges ds : List Rat) (cols : List (List Rat))
    (i j : ℕ) : List β :=
  if i = j then experimental est edges.length (groups edges ds) (pairDiffs (cols.getD i []))
  else experimental est edges.length (groups edges ds)
    (crossDiffs (cols.getD i []) (cols.getD j []))

theorem C16_table {β} (est : List Rat → β) (edges ds : List Rat) (cols : List (List Rat))
    (i j : ℕ) :
    crossTable est edges ds cols i j = crossTable est edges ds cols j i ∧
    crossTable est edges ds cols i i =
      experimental est edges.length (groups edges ds) (pairDiffs (cols.getD i [])) := by
  constructor
  · unfold crossTable
    by_cases h : i = j
    · subst h; rfl
    · have h' : ¬ j = i := fun e => h e.symm
      simp only [h, h', if_false]
      rw [C16_symmetric]
  · simp [crossTable]

example : crossDiffs [1, 3, 6] [2, 2, 5] = [0, 15, 9] := by decide +kernel

/-- `cross_variograms` as it is in the source now: double loop over the columns, the ordinary variogram of column `i` on the diagonal, columns `[i, j]` elsewhere -/
theorem C16_source_table : Gen.crossTableSource =
    [
    ("loops", "i in range(N) | j in range(N)"),
    ("branches", "any([arg in kwargs for arg in ('azimuth', 'tolerance', 'bandwidth')]) | i == j"),
    ("entries", "BaseCls(coordinates, values[:, i], **kwargs) | BaseCls(coordinates, v, **kwargs) | v = values[:, [i, j]]")] := by rfl

end Skg
