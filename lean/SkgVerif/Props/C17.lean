import SkgVerif.Model.CrossVal
import Mathlib.Tactic
import Mathlib.Data.List.Basic
/-!
# C17 — jackknife cross-validation scores are those of true leave-one-out kriging
-/
namespace Skg

/-- holding out point `i` removes exactly that point, keeps coordinates and values aligned and
the held-out observation is not among the remaining data (for distinct observations) -/
theorem C17_holdout {α β} (cs : List α) (vs : List β) (i : ℕ) (hi : i < cs.length)
    (hlen : cs.length = vs.length) :
    (deleteAt cs i).length = cs.length - 1 ∧
    (deleteAt cs i).zip (deleteAt vs i) = deleteAt (cs.zip vs) i ∧
    (∀ k, k < i → (deleteAt cs i)[k]? = cs[k]?) ∧
    (∀ k, i ≤ k → (deleteAt cs i)[k]? = cs[k + 1]?) := by
  unfold deleteAt
  refine ⟨by simp [List.length_eraseIdx, hi], ?_, ?_, ?_⟩
  · apply List.ext_getElem?
    intro k
    simp only [List.getElem?_zip_eq_some, List.getElem?_eraseIdx]
    by_cases hk : k < i
    · simp [hk, List.getElem?_eraseIdx, List.zip_eq_zipWith, List.getElem?_zipWith]
    · simp [hk, List.getElem?_eraseIdx, List.zip_eq_zipWith, List.getElem?_zipWith]
  · intro k hk; simp [List.getElem?_eraseIdx, hk]
  · intro k hk; simp [List.getElem?_eraseIdx, not_lt.2 hk]

theorem C17_heldout_absent {α} [DecidableEq α] (cs : List α) (hnd : cs.Nodup) (i : ℕ)
    (hi : i < cs.length) : cs[i] ∉ deleteAt cs i := by
  unfold deleteAt
  intro h
  obtain ⟨j, hne, hj⟩ := List.mem_eraseIdx_iff_getElem?.1 h
  have hjl : j < cs.length := by
    by_contra hc; simp [List.getElem?_eq_none (not_lt.1 hc)] at hj
  rw [List.getElem?_eq_getElem hjl] at hj
  exact hne ((List.Nodup.getElem_inj_iff hnd).1 (Option.some.inj hj))

/-- the scores are taken over the points that could be estimated: un-estimable points (NaN) do
not influence them -/
theorem C17_score (devs : List (Option Rat)) :
    mseScore devs = mseScore ((somes devs).map some) ∧
    maeScore devs = maeScore ((somes devs).map some) := by
  have : somes ((somes devs).map some) = somes devs := by
    unfold somes; simp [List.filterMap_map]
  unfold mseScore maeScore
  simp only [this, and_self]

/-- D3 (repaired): the old `nansum/len` MAE shrinks with every un-estimable point -/
theorem C17_mae_defect : maeScore [some 2, none, some 4] = some 3 ∧
    maeScoreDefect [some 2, none, some 4] = some 2 := by
  refine ⟨by decide +kernel, by decide +kernel⟩

end Skg
