import SkgVerif.Model.CrossVal
import Mathlib.Tactic
import Mathlib.Data.List.Basic
import SkgVerif.Gen.Source
import SkgVerif.Props.Transcribed.C17
/-!
# C17 — jackknife cross-validation scores are those of true leave-one-out kriging
-/
namespace Skg

/-- holding out point `i` removes exactly that point, keeps coordinates and values aligned and
the held-out observation is not among the remaining data (for distinct observations) -/
theorem C17_holdout {α β} (cs : List α) (vs : List β) (i : ℕ) (hi : i < cs.length)
    (hlen : cs.length = vs.length) :
    (deleteAt cs i).length = cs.length - 1 ∧
    (deleteAt cs i).zip (deleteAt vs i) = deleteAt (cs.zip vs) i ∧
    (∀ k, k < i → (deleteAt cs i)[k]? = cs[k]?) ∧
    (∀ k, i ≤ k → (deleteAt cs i)[k]? = cs[k + 1]?) := by
  unfold deleteAt
  refine ⟨by simp [List.length_eraseIdx, hi], ?_, ?_, ?_⟩
  · apply List.ext_getElem?
    intro k
    simp only [List.getElem?_zip_eq_some, List.getElem?_eraseIdx]
    by_cases hk : k < i
    · simp [hk, List.getElem?_eraseIdx, List.zip_eq_zipWith, List.getElem?_zipWith]
    · simp [hk, List.getElem?_eraseIdx, List.zip_eq_zipWith, List.getElem?_zipWith]
  · intro k hk; simp [List.getElem?_eraseIdx, hk]
  · intro k hk; simp [List.getElem?_eraseIdx, not_lt.2 hk]

theorem C17_heldout_absent {α} [DecidableEq α] (cs : List α) (hnd : cs.Nodup) (i : ℕ)
    (hi : i < cs.length) : cs[i] ∉ deleteAt cs i := by
  unfold deleteAt
  intro h
  obtain ⟨j, hne, hj⟩ := List.mem_eraseIdx_iff_getElem?.1 h
  have hjl : j < cs.length := by
    by_contra hc; simp [List.getElem?_eq_none (not_lt.1 hc)] at hj
  rw [List.getElem?_eq_getElem hjl] at hj
  exact hne ((List.Nodup.getElem_inj_iff hnd).1 (Option.some.inj hj))

/-- the scores are taken over the points that could be estimated: un-estimable points (NaN) do
not influence them -/
theorem C17_score (devs : List (Option Rat)) :
    mseScore devs = mseScore ((somes devs).map some) ∧
    maeScore devs = maeScore ((somes devs).map some) := by
  have : somes ((somes devs).map some) = somes devs := by
    unfold somes; simp [List.filterMap_map]
  unfold mseScore maeScore
  simp only [this, and_self]

/-- the removed point never contributes to its own prediction: the leave-one-out prediction at
point `i` is the same whatever value was observed there -/
theorem C17_own_value_unused (maxDist : Rat) (minP maxP : ℕ) (D Gm : List (List Rat))
    (v : List Rat) (i : ℕ) (x : Rat) :
    looPredict maxDist minP maxP D Gm (v.set i x) i = looPredict maxDist minP maxP D Gm v i := by
  unfold looPredict deleteAt
  rw [List.eraseIdx_set_eq]

/-- the prediction uses all remaining observations: it is the kriging result (`krigeOne`, whose
neighbourhood and system are characterised by `C07_target`) for the data set with exactly the
held-out entry removed, and the deviation compares it with the removed observation -/
theorem C17_loo (maxDist : Rat) (minP maxP : ℕ) (D Gm : List (List Rat)) (v : List Rat) (i : ℕ) :
    (∀ z sg, looPredict maxDist minP maxP D Gm v i = .ok z sg →
        looDev maxDist minP maxP D Gm v i = some (z - v.getD i 0)) ∧
    ((∀ z sg, looPredict maxDist minP maxP D Gm v i ≠ .ok z sg) →
        looDev maxDist minP maxP D Gm v i = none) ∧
    (deleteAt v i).length = v.length - (if i < v.length then 1 else 0) := by
  refine ⟨?_, ?_, ?_⟩
  · intro z sg h; simp [looDev, h]
  · intro h
    unfold looDev
    cases hk : looPredict maxDist minP maxP D Gm v i with
    | ok z sg => exact absurd hk (h z sg)
    | lessPoints => rfl
    | singular => rfl
  · unfold deleteAt
    by_cases hi : i < v.length
    · simp [List.length_eraseIdx, hi]
    · simp [hi, List.eraseIdx_of_length_le (not_lt.1 hi)]

/-- the jackknife score is the score over the deviations of exactly the selected points -/
theorem C17_jackknife (maxDist : Rat) (minP maxP : ℕ) (D Gm : List (List Rat)) (v : List Rat)
    (sel : List ℕ) :
    (jackknife maxDist minP maxP D Gm v sel).length = sel.length ∧
    ∀ k (hk : k < sel.length), (jackknife maxDist minP maxP D Gm v sel)[k]'(by simpa [jackknife] using hk)
      = looDev maxDist minP maxP D Gm v sel[k] := by
  refine ⟨by simp [jackknife], ?_⟩
  intro k hk; simp [jackknife]

/-- D3 (repaired): the old `nansum/len` MAE shrinks with every un-estimable point -/
theorem C17_mae_defect : maeScore [some 2, none, some 4] = some 3 ∧
    maeScoreDefect [some 2, none, some 4] = some 2 := by
  refine ⟨by decide +kernel, by decide +kernel⟩

/-- `_interpolate` / `jacknife` as they are in the source now: exactly row `idx` is deleted from
coordinates and values, kriging uses the variogram and the remaining data, the deviation is
prediction − held-out observation; indices are drawn without replacement from a generator seeded
with `seed`; the scores are `nanmean`-based -/
theorem C17_source : Gen.jackknifeSource =
    [("hold_out_coordinates", "c = np.delete(variogram.coordinates, idx, axis=0)"),
     ("hold_out_values", "v = np.delete(variogram.values, idx, axis=0)"),
     ("kriging", "ok = OrdinaryKriging(variogram, coordinates=c, values=v)"),
     ("deviation", "return (Z - variogram.values[idx])[0]"),
     ("indices", "indices = rng.choice(len(variogram.coordinates), replace=False, size=size)"),
     ("generator", "rng = np.random.default_rng(seed=seed)"),
     ("scores", "return np.sqrt(np.nanmean(np.power(deviations, 2))) | return np.nanmean(np.power(deviations, 2)) | return np.nanmean(np.abs(deviations))")] := by rfl

end Skg
