import SkgVerif.Model.Ownership
import SkgVerif.Gen.Tables
import Mathlib.Tactic
import SkgVerif.Props.Transcribed.C18
/-!
# C18 — results are reproducible, instances isolated, caller arrays never modified

Process-level determinism, `copy.deepcopy` and `pickle` are runtime behaviour the model cannot
exhibit (validated differentially by the harness).
-/
namespace Skg

theorem observe_owned (σ σ' : Store) (i : Inst) (h : allOwned i = true) :
    observe σ i = observe σ' i := by
  unfold observe
  apply List.map_congr_left
  intro f hf
  have := (List.all_eq_true.1 h) f hf
  cases f with
  | owned v => rfl
  | shared c => simp at this

/-- isolation for all operation sequences: if every stored field is a private copy and every
array handed out is a copy, then no sequence of caller-side writes (to input arrays or to
returned arrays) changes what the instance reports -/
theorem C18_isolation (ret : ℕ → Bool) (hret : ∀ k, ret k = true) (ops : List COp)
    (σ : Store) (i : Inst) (h : allOwned i = true) :
    observe (ops.foldl (applyOp ret) (σ, i)).1 (ops.foldl (applyOp ret) (σ, i)).2 = observe σ i := by
  induction ops generalizing σ i with
  | nil => rfl
  | cons op ops ih =>
    simp only [List.foldl_cons]
    cases op with
    | callerWrite c v =>
      simp only [applyOp]
      rw [ih (writeStore σ c v) i h]
      exact observe_owned _ _ i h
    | mutateReturned k v =>
      simp only [applyOp, hret k, if_true]
      exact ih σ i h

/-- a clone is isolated from the original and from the caller: it owns everything, reports what
the original reports at the time of cloning, and modifying it leaves the original untouched (the
original is a different value) -/
theorem C18_clone (σ : Store) (i : Inst) :
    allOwned (clone σ i) = true ∧ observe σ (clone σ i) = observe σ i := by
  constructor
  · simp [allOwned, clone]
  · simp [observe, clone, readField]

/-- an aliased field is affected by a later caller-side write (why D4 mattered) -/
theorem C18_alias_counterexample :
    observe (writeStore (fun _ => 7) 0 9) { fields := [.shared 0] } ≠
      observe (fun _ => 7) { fields := [.shared 0] } := by decide

/-- the ownership table extracted from the current source: values, coordinates (both metric
space kinds), MetricSpace.coords and OrdinaryKriging.values are stored as copies, the lag edges
are handed out as a copy -/
theorem C18_source_table : tableOK Gen.ownership = true := by decide

end Skg
