import SkgVerif.Model.Propagate
import SkgVerif.Lemmas.Edges
import SkgVerif.Lemmas.Median
import SkgVerif.Gen.Source
import SkgVerif.Props.Transcribed.C19
/-!
# C19 — uncertainty propagation: ordered, reproducible bounds; source left untouched
-/
namespace Skg

/-- lower ≤ median ≤ upper for every confidence level q ∈ [0, 100] and every member list -/
theorem C19_ordered (xs : List Rat) (hne : xs ≠ []) (q : Rat) (h0 : 0 ≤ q) (h1 : q ≤ 100) :
    (bounds xs q).1 ≤ (bounds xs q).2.1 ∧ (bounds xs q).2.1 ≤ (bounds xs q).2.2 := by
  unfold bounds percentile
  constructor
  · apply C02_quantile_mono' xs hne <;> linarith
  · apply C02_quantile_mono' xs hne <;> linarith

/-- the middle value is the median (`np.median`) of the Monte-Carlo members -/
theorem C19_median (xs : List Rat) (hne : xs ≠ []) (q : Rat) :
    median xs = some (bounds xs q).2.1 := by
  rw [median_eq_quantile_half xs hne]
  unfold bounds percentile
  norm_num

/-- lowering q towards the full min-max range never narrows an interval -/
theorem C19_monotone_q (xs : List Rat) (hne : xs ≠ []) (q₁ q₂ : Rat) (h0 : 0 ≤ q₁) (h12 : q₁ ≤ q₂) :
    (bounds xs q₁).1 ≤ (bounds xs q₂).1 ∧ (bounds xs q₂).2.2 ≤ (bounds xs q₁).2.2 := by
  unfold bounds percentile
  constructor
  · apply C02_quantile_mono' xs hne <;> linarith
  · by_cases h : 0 ≤ (100 - q₂ / 2) / 100
    · apply C02_quantile_mono' xs hne h; linarith
    · -- levels below 0 are outside the documented range; the statement is about q ≤ 200
      have : (100 - q₂ / 2) / 100 ≤ (100 - q₁ / 2) / 100 := by linarith
      exact quantile_mono_any xs hne this

/-- with zero observation uncertainty all Monte-Carlo members coincide and all three bounds
equal that common result -/
theorem C19_zero_noise (x : Rat) (n : ℕ) (hn : 0 < n) (q : Rat) :
    bounds (List.replicate n x) q = (x, x, x) := by
  have key : ∀ p : Rat, quantile (List.replicate n x) p = x := by
    intro p
    unfold quantile
    have hs : sortR (List.replicate n x) = List.replicate n x := by
      apply List.Perm.eq_of_pairwise (le := (· ≤ ·))
      · intro a b _ _ hab hba; exact le_antisymm hab hba
      · exact sortR_pairwise _
      · rw [List.pairwise_replicate]; right; exact le_refl x
      · exact sortR_perm _
    rw [hs, quantileSorted_eq]
    have hnodes : ∀ i, nodes (List.replicate n x) i = x := by
      intro i
      unfold nodes
      rw [List.length_replicate]
      have : min i (n - 1) < (List.replicate n x).length := by rw [List.length_replicate]; omega
      rw [getD_eq_getElem' _ _ this]; simp
    unfold lerpAt
    simp [hnodes]
  simp [bounds, percentile, key]

/-- D12 (repaired): truncating q/2 to an integer changes the levels for odd q -/
theorem C19_truncation :
    bounds [0, 10, 20, 30, 40] 5 ≠ boundsDefect [0, 10, 20, 30, 40] 5 := by decide +kernel

/-- D11 (known finding): a resolved maxlag below 1 is re-read as a ratio when it is forwarded to
the Monte-Carlo members -/
theorem C19_member_cfg_partial (ds : List Rat) (v : Rat) :
    (1 ≤ v → resolveMaxlag (.num v) ds = some v) ∧
    (resolveMaxlag (.num (1/2)) [1/5, 3/5, 4/5] = some (2/5) ∧
     resolveMaxlag (.num (2/5)) [1/5, 3/5, 4/5] ≠ some (2/5)) := by
  refine ⟨fun h => by simp [resolveMaxlag, not_lt.2 h], by decide +kernel, by decide +kernel⟩

/-- the percentile levels and the three result columns of `propagate` as they are in the source
now: `q/2`, median, `100 − q/2` -/
theorem C19_source : Gen.propagateSource =
    [("lower_level", "ql = kwargs.get('q', 10) / 2"),
     ("upper_level", "qu = 100 - kwargs.get('q', 10) / 2"),
     ("columns", "np.percentile(res, ql, axis=0) | np.median(res, axis=0) | np.percentile(res, qu, axis=0)")] := by rfl

/-- the targets a Monte-Carlo member evaluates, in the order of the source now: the documented
[experimental, parameter, model] -/
theorem C19_source_targets :
    Gen.propagateTargets = ["experimental", "parameter", "model"] ∧ Gen.propagateSplit = "range(len(evalf))" := by
  exact ⟨rfl, rfl⟩

/-- several targets in one call: which interval matrices come back, and in which order, depends
only on the *set* of requested targets - never on the order (or repetition) in the request; the
order is always the documented one -/
theorem C19_targets_order (req₁ req₂ : List String) (h : ∀ t, t ∈ req₁ ↔ t ∈ req₂) :
    targetsOut Gen.propagateTargets req₁ = targetsOut Gen.propagateTargets req₂ := by
  unfold targetsOut
  apply List.filter_congr
  intro t _
  by_cases h1 : t ∈ req₁
  · have h2 := (h t).mp h1
    simp [h1, h2]
  · have h2 : t ∉ req₂ := fun h2 => h1 ((h t).mpr h2)
    simp [h1, h2]

/-- ... it is a sublist of the documented order, holds every requested known target exactly once,
and a single target gives a single matrix -/
theorem C19_targets_documented (req : List String) :
    (targetsOut Gen.propagateTargets req).Sublist ["experimental", "parameter", "model"] ∧
    (∀ t ∈ ["experimental", "parameter", "model"], t ∈ req → (targetsOut Gen.propagateTargets req).count t = 1) ∧
    (∀ t, t ∈ targetsOut Gen.propagateTargets req → t ∈ req) := by
  have hs : Gen.propagateTargets = ["experimental", "parameter", "model"] := rfl
  refine ⟨by rw [hs]; exact List.filter_sublist, ?_, ?_⟩
  · intro t ht hreq
    rw [hs]
    unfold targetsOut
    rw [List.count_filter (by simpa using hreq)]
    simp only [List.mem_cons, List.not_mem_nil, or_false] at ht
    rcases ht with rfl | rfl | rfl <;> decide
  · intro t ht
    unfold targetsOut at ht
    simpa using (List.mem_filter.mp ht).2

example : targetsOut Gen.propagateTargets ["model", "parameter"] = ["parameter", "model"] := by decide

end Skg
