import SkgVerif.Lemmas.Kriging
import SkgVerif.Lemmas.Pairs
import SkgVerif.Lemmas.CondIdx
import SkgVerif.Gen.Source
import SkgVerif.Props.Transcribed.C20
/-!
# C20 — metric spaces hold true distances; neighbour search = nearest N within range
-/
namespace Skg

/-- `squareform` of a condensed vector given as a function of the (ordered) pair -/
def squareOf (d : ℕ → ℕ → Rat) (i j : ℕ) : Rat :=
  if i = j then 0 else d (min i j) (max i j)

/-- the square distance matrix is symmetric with zero diagonal and holds the pair's distance -/
theorem C20_squareform (d : ℕ → ℕ → Rat) (i j : ℕ) :
    squareOf d i j = squareOf d j i ∧ squareOf d i i = 0 ∧
    (i < j → squareOf d i j = d i j) := by
  refine ⟨?_, by simp [squareOf], ?_⟩
  · unfold squareOf
    by_cases h : i = j
    · subst h; rfl
    · have h' : ¬ j = i := fun e => h e.symm
      simp [h, h', min_comm, max_comm]
  · intro h
    have : i ≠ j := by omega
    simp [squareOf, this, Nat.min_eq_left h.le, Nat.max_eq_right h.le]

/-- the square matrix entry `(i, j)`, `i < j < n`, is entry `condIdx n i j` of the condensed
vector: a bijection between the condensed order and the strict upper triangle -/
theorem C20_condensed_bijection (n : ℕ) :
    (∀ i j, i < j → j < n → (pairs n)[condIdx n i j]? = some (i, j)) ∧ (pairs n).Nodup ∧
    (∀ p ∈ pairs n, p.1 < p.2 ∧ p.2 < n) :=
  ⟨fun i j hij hj => pairs_condIdx n i j hij hj, nodup_pairs n, fun p hp => (mem_pairs n p).1 hp⟩

/-- neighbour search returns the N nearest points among those within the maximum distance
(all of them if fewer than N) -/
theorem C20_find_closest (row : List Rat) (maxDist : Rat) (N : ℕ) :
    ∃ sel rest : List (Rat × ℕ),
      findClosestDense row maxDist N = sel.map (·.2) ∧
      (sel ++ rest).Perm (candidatesDense row maxDist) ∧
      sel.length = min N (candidatesDense row maxDist).length ∧
      (∀ a ∈ sel, ∀ b ∈ rest, a.1 ≤ b.1) ∧
      (∀ p, p ∈ candidatesDense row maxDist ↔ (row[p.2]? = some p.1 ∧ p.1 ≤ maxDist)) := by
  obtain ⟨sel, rest, h1, h2, h3, h4⟩ := selectFrom_spec (candidatesDense row maxDist) N
  exact ⟨sel, rest, h1, h2, h3, h4, fun p => mem_candidatesDense row maxDist p.1 p.2⟩

/-- identical for sparse and dense storage when the sparse row stores exactly the in-range
entries -/
theorem C20_sparse_dense_same (row : List Rat) (maxDist : Rat) (N : ℕ) :
    findClosestSparse (candidatesDense row maxDist) N = findClosestDense row maxDist N := rfl

/-- ... and for every order in which a sparse format may yield the stored in-range entries: the
result is again "the N nearest within the maximum distance", and it is the dense result up to
order when no two in-range points are equidistant from the query point -/
theorem C20_sparse_any_order (row : List Rat) (maxDist : Rat) (entries : List (Rat × ℕ)) (N : ℕ)
    (h : entries.Perm (candidatesDense row maxDist)) :
    (∃ sel rest : List (Rat × ℕ),
      findClosestSparse entries N = sel.map (·.2) ∧
      (sel ++ rest).Perm (candidatesDense row maxDist) ∧
      sel.length = min N (candidatesDense row maxDist).length ∧
      (∀ a ∈ sel, ∀ b ∈ rest, a.1 ≤ b.1)) ∧
    ((entries.map (·.1)).Nodup →
      (findClosestSparse entries N).Perm (findClosestDense row maxDist N)) := by
  constructor
  · obtain ⟨sel, rest, h1, h2, h3, h4⟩ := selectFrom_spec entries N
    exact ⟨sel, rest, h1, h2.trans h, by rw [h3, h.length_eq], h4⟩
  · exact fun hd => selectFrom_perm entries (candidatesDense row maxDist) h hd N

/-- a space with a maximum distance stores exactly the pairs whose distance is at most that
maximum, with their true distances (contract of the kd-tree, as a statement about the stored
row): membership in the candidate list is `d ≤ max_dist` and the stored value is the row's -/
theorem C20_sparse_contents (row : List Rat) (maxDist : Rat) (j : ℕ) (hj : j < row.length) :
    ((row[j], j) ∈ candidatesDense row maxDist ↔ row[j] ≤ maxDist) ∧
    (∀ d, (d, j) ∈ candidatesDense row maxDist → d = row[j]) := by
  constructor
  · rw [mem_candidatesDense]; simp [hj]
  · intro d hd
    have := (mem_candidatesDense row maxDist d j).1 hd
    rw [List.getElem?_eq_getElem hj] at this
    exact (Option.some.inj this.1).symm

/-- pair sampling: sampled positions are mapped back to original point indices through the two
index vectors; without replacement (no duplicates) the double remap is injective, so every stored
entry is the distance of one well-defined (left, right) pair -/
theorem C20_sampled_remap (lidx ridx : List ℕ) (hl : lidx.Nodup) (hr : ridx.Nodup)
    (a a' b b' : ℕ) (ha : a < lidx.length) (ha' : a' < lidx.length) (hb : b < ridx.length)
    (hb' : b' < ridx.length) (h : (lidx[a], ridx[b]) = (lidx[a'], ridx[b'])) :
    a = a' ∧ b = b' := by
  have := Prod.mk.inj h
  exact ⟨(List.Nodup.getElem_inj_iff hl).1 this.1, (List.Nodup.getElem_inj_iff hr).1 this.2⟩

example : findClosestDense [5, 1, 3, 9, 3] 5 3 = [1, 2, 4] := by decide +kernel

/-- `find_closest` as it is in the source now (see `C07_source_find_closest`) -/
theorem C20_source_find_closest : (Gen.findClosestSource.map (·.1)) = ["candidates", "guard", "sort"] ∧
    Gen.findClosestSource.lookup "guard" = some "ridx.size > N" ∧
    Gen.findClosestSource.lookup "sort" = some "sorted_ridx = np.argsort(selected_dists, kind='stable')" ∧
    Gen.findClosestSource.lookup "candidates" = some "ridx = np.array([k[1] for k in dists.todok().keys()]) | ridx = ridx[sorted_ridx][:N] | ridx = np.where(dists <= max_dist)[0] | ridx = np.arange(len(dists))" :=
  ⟨by rfl, by rfl, by rfl, by rfl⟩

/-- `MetricSpace.dists` / `MetricSpacePair.dists` / `diagonal` as they are in the source now: kd-tree sparse matrix iff `max_dist` is set and the metric is euclidean, else `pdist` / `cdist`; sub-matrices fill missing entries with `inf` and a zero diagonal -/
theorem C20_source_dists : Gen.metricSpaceSource =
    [
    ("sparse_condition", "self.max_dist is not None and self.dist_metric == 'euclidean'"),
    ("dists", "self._dists = self.tree.sparse_distance_matrix(self.tree, self.max_dist, output_type='coo_matrix').tocsr() | self._dists = squareform(pdist(self.coords, metric=self.dist_metric, **self.dist_metric_kwargs))"),
    ("pair_dists", "self._dists = self.ms1.tree.sparse_distance_matrix(self.ms2.tree, self.max_dist, output_type='coo_matrix').tocsr() | self._dists = cdist(self.ms1.coords, self.ms2.coords, metric=self.ms1.dist_metric, **self.ms1.dist_metric_kwargs)"),
    ("diagonal", "dist_mat = self.dists | dist_mat = dist_mat[idx, :][:, idx] | dist_mat = _sparse_dok_get(dist_mat.todok(), np.inf) | np.fill_diagonal(dist_mat, 0)"),
    ("diagonal_return", "return squareform(dist_mat)")] := by rfl

end Skg
