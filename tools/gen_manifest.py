#!/usr/bin/env python3
"""Writes MANIFEST.json from the per-property table below (kept in one place so that the
manifest is always valid and in step with what ./check implements)."""
import json, os
ROOT = os.path.dirname(os.path.dirname(os.path.abspath(__file__)))

COMMON_NOTE = ('Trusted base: Lean 4.33 kernel (+ leanchecker in the thorough tier); axioms limited to propext, '
               'Classical.choice, Quot.sound (audited with #print axioms on every run; no sorry/native_decide/'
               'bv_decide/own axioms); Mathlib as proved library; translator/ (Python AST -> Lean, output '
               'regenerated from /repo on every run) and harness/ (correspondence of the executable Lean model '
               'with the real classes on identical exact-rational inputs). Floating-point rounding is not '
               'modelled: theorems are over Q / R, rounding inside computations is covered by the stated '
               'tolerances only. Every hand-written model additionally carries the theorem Cxx_source_transcribed: the '
               'normalised source text of the functions it transcribes (171 functions, translator/tables.py: TRANSCRIBED) '
               'is regenerated on every run and must equal the text the model was written from; when it does not, the '
               'tie is broken, the correspondence search runs with a 5x budget and the violation is reported with the '
               'failing input it finds, or with no-failing-input-found. ')

CHECKS = {
 'C01': dict(
   text='Theorems (for all edge lists, distance lists, sizes): the _calc_groups loop assigns class k iff '
        'edge[k-1] <= d < edge[k] and -1 iff d is at/after every edge (induction over the interval chain); '
        'partition/uniqueness; bin_count and each experimental entry are the count / the estimator over exactly '
        'that sub-list; pdist order enumerates exactly the pairs i<j once and keeps k-th distance and k-th '
        'difference on the same pair; Matheron/Dowd/Genton as generated from estimators.py equal the documented '
        'formulas (Genton only for even N: D15 counter-example proved), Cressie-Hawkins over the reals; closed form of the condensed index; the comparison operators of the lag-class loop are extracted from the source; end to end (C01_pipeline_even): one executable function '
        'composes maxlag resolution, clipping, even edges, grouping, counting and the estimator - n_lags classes ending at the effective maximum lag, class k = exactly the pairs with edge[k-1] <= d < edge[k]. Tie: translator for estimator formulas; whole-pipeline correspondence (bins, groups, counts, semivariances from distances + values alone); '
        'correspondence of groups/counts (exact) and semivariances (1e-9) on the implementation\'s own distance '
        'vector for all binnings/estimators/storages; brute-force pair-set oracles for dense and sparse storage.',
   note='pdist / cKDTree numerical contents are taken from the implementation (C20 checks them); Cressie-Hawkins is '
        'executed on Float in the model (needs sqrt); Genton classes above 45 pairs are compared for grouping only.',
   technique='Lean 4 proof (induction over the lag-interval chain; list lemmas) + translator + exact-rational correspondence',
   design='6 C01'),
}


CHECKS.update({
 'C02': dict(
   text='Theorems: even = n equal-width strictly increasing classes ending exactly at the effective maximum lag; '
        'NumPy linear-interpolation quantile is monotone in the level and stays within the data, hence uniform edges '
        'are n non-decreasing i/n quantiles of the distances within the effective maximum lag, none above it; '
        'mid-points of [0]+sorted centres (k-means/ward) are non-decreasing and bounded; maxlag resolution cases '
        '(C02_string_maxlag: on the generated setter a median / mean request is that distance itself also below 1, only a number below 1 is a ratio) and '
        'effMax <= largest distance. Tie: correspondence of Variogram.bins/n_lags/maxlag and skgstat.binning.* with '
        'the executable model for every method and maxlag form; clustering centres / NumPy bin rules re-run as contracts.',
   note='scikit-learn KMeans/AgglomerativeClustering and numpy.histogram_bin_edges are contracts (re-run with the same '
        'arguments, not proved). Known finding D9 (sparse storage ends even edges at the largest stored distance).',
   technique='Lean 4 proof (floor/interpolation lemmas, list induction) + exact-rational correspondence', design='6 C02'),
 'C03': dict(
   text='Theorems about the definitions generated from models.py on every run: for spherical, exponential, gaussian, '
        'cubic, stable (r>0, c0>=0, s>0): value b at lag 0, monotone in the lag, within [b, b+c0], >= 95 % of the sill '
        'at the effective range (exactly the sill at/beyond it for spherical and cubic), Tendsto b+c0 at infinity, '
        'nugget additivity; array call = map; argument slices of +-sums tile the coefficient vector; a sum of ANY number of '
        'components = components + one nugget. Matern: zero-lag clause proved, the analytic clauses reduced to explicit hypotheses '
        'about x^s K_s(x) (partial). Tie: translator (a changed constant/comparison breaks a named theorem) + Float/Rat '
        'twins of the generated definitions executed against the Python functions + numeric oracle of every clause.',
   note='Mathlib has no modified Bessel functions: Matern monotonicity/bounds/90 % are validated numerically only. '
        'Rounding is not modelled (numeric oracle uses slack 1e-9*(b+c0)).',
   technique='Lean 4 proof over the reals of generated definitions (translator tie)', design='6 C03'),
 'C07': dict(
   text='Theorems: neighbour selection returns min(N, |in range|) candidates within range, none farther than a rejected '
        'one (stable insertion sort = Mathlib insertionSort: sorted permutation); assembled system has the documented '
        'shape and IS the ordinary-kriging equations (list model <-> IsOKSol bridge); a returned result carries an exact '
        'certificate A x = b, satisfies IsOKSol (so all C08 theorems apply to the executable model), estimate = w.v and variance = w.g0 + mu; '
        'per-call bookkeeping for every outcome list: i-th variance belongs to i-th estimate, NaN exactly for failed '
        'targets, counters = numbers of failures (induction over the target list); end to end (C07_target, C07_transform): one executable '
        'function composes neighbour search, sub-system, exact solve and bookkeeping for a whole transform call, NaN exactly '
        'when fewer than min_points observations are in range, otherwise the exact OK solution of the selected neighbourhood. '
        'Tie: per-target correspondence and whole-call correspondence with the end-to-end model - Lean '
        'selects neighbours on the exact float distances and solves the system exactly over Q; z, sigma^2, NaN pattern and '
        'counters are compared with OrdinaryKriging.transform. The key statements of _krige / _estimator / transform / find_closest are extracted from the source and pinned (C07_source_krige, C07_source_find_closest, C07_source_bookkeeping).',
   note='LAPACK solves are compared numerically (1e-12*cond); semivariances are taken from the implementation fitted '
        'model; mode="estimate" is outside the property.',
   technique='Lean 4 proof (sorting/permutation lemmas, fold invariant) + exact rational re-solution', design='6 C07'),
 'C08': dict(
   text='Theorems over an arbitrary field, any neighbourhood size, for ANY solution of the ordinary-kriging equations: '
        'weights sum to one; shift of the observations shifts the estimate; constant field reproduced; scaling the '
        'semivariances by k^2 keeps weights and scales the variance by k^2; exact interpolation under uniqueness and '
        'gamma(0)=0; variance = 2 sum(w g0) - sum sum(w w G), hence non-negative given conditional negative definiteness. '
        'Tie: the system the code assembles is tied to the model in C07; metamorphic runs on the implementation check the '
        'conclusions (shift, scale, constant, exactness at observations, sign).',
   note='Conditional negative definiteness of the named models (Euclidean distance) is a hypothesis, not proved.',
   technique='Lean 4 proof (Finset algebra over a field) + metamorphic correspondence', design='6 C08'),
 'C09': dict(
   text='Theorems: one transform call over any target list is the pointwise map of the per-target computation (state is '
        're-initialised per call), hence independent of batch composition and ordering; sparse and dense neighbour search '
        'coincide when the stored row entries are the in-range entries, and for ANY order of the stored entries the sparse selection is an admissible '
        'nearest-N choice, equal to the dense one up to order when no two in-range observations are equidistant; the kriging result is invariant under '
        'a relabelling of the selected neighbours; all solutions of an invertible system coincide '
        '(any solver). Tie: runs over solver x sparse x array/MetricSpace targets x partitions/permutations x repeated calls. C09_source_reset pins the per-call re-initialisation statements.',
   note='Agreement of the three LAPACK paths is numeric (1e-7 relative).',
   technique='Lean 4 proof (fold = map, Matrix uniqueness) + route-differential correspondence', design='6 C09'),
 'C10': dict(
   text='Theorems: for every relabelling of the points the per-pair (distance, difference) records are a permutation of '
        'the original ones; Matheron, Dowd, Genton are permutation-invariant; even/uniform edges depend on the distance '
        'multiset only => edges, counts, semivariances unchanged; shift of values leaves differences unchanged; scaling '
        'values by k scales the three estimators by k^2; scaling coordinates by s>0 scales even/uniform edges by s and keeps '
        'every pair in its class; rational rigid motions preserve squared distances. Tie: C01 pipeline theorem + metamorphic '
        'runs on the implementation: every relation on freshly built instances, the value relations also on a computed '
        'instance whose observations are replaced in place (values setter / set_values).',
   note='Cressie-Hawkins is proved over the reals on the generated definition (C10_cressie); clustering / rule-based binnings under inexact transforms are '
        'validated only. For inexact transforms a case is excluded when two different pairs, or a near miss, sit within 1e-9 of an edge, or any '
        'pair within 1e-9 of a caller-given maximum lag (a single pair exactly on the edge it defines moves with it).',
   technique='Lean 4 proof (List.Perm, bijection on index pairs, homogeneity) + metamorphic correspondence', design='6 C10'),
 'C11': dict(
   text='Theorems: if the stored records are any enumeration of the records within the truncation distance M then counts and '
        'semivariances of every class with edge <= M coincide with the dense ones; even/uniform edges coincide when '
        'M >= largest distance or M is an occurring distance (partial); proved counter-examples for D9 (M between '
        'distances) and D10 (lost zero distances, repaired). Tie: three storage routes on identical data, model on both '
        'record sets. The sparse triangle extraction is pinned (C11_source_storage).',
   note='Known finding D9. cKDTree boundary decisions within rounding distance of max_dist are outside the property.',
   technique='Lean 4 proof (filter/permutation lemmas) + storage-differential correspondence', design='6 C11'),
 'C16': dict(
   text='Theorems: k-th cross difference is |dz1|*|dz2| of the k-th pair; crossDiffs is symmetric in the two variables, hence '
        'table entry (i,j) = (j,i) for every estimator/edges; the diagonal is the ordinary variogram of the column. Tie: '
        'pairwise_diffs/experimental vs model, cross_variograms table symmetry/diagonal on the implementation. The statements of cross_variograms are pinned (C16_source_table).',
   note='Directional base class is exercised once DirectionalVariogram can be constructed.',
   technique='Lean 4 proof (zipWith commutativity, index lemmas) + correspondence', design='6 C16'),
 'C17': dict(
   text='Theorems: np.delete keeps coordinates and values aligned, removes exactly the held-out point, which is not among '
        'the remaining data; the leave-one-out prediction (composed with the C07 end-to-end model) does not depend on the value observed at the '
        'held-out point and uses all remaining observations; mse/mae scores depend on the estimable points only; counter-example for the pre-repair MAE '
        '(D3). Tie: the seeded subset is reproduced, every leave-one-out residual recomputed through the real '
        'OrdinaryKriging on the reduced set (a sample through the exact C07 model), the whole jackknife through the end-to-end Lean model (exact solves), scores through the model. C17_source pins the hold-out, deviation, index selection and score statements of cross_validation.py.',
   note='NumPy RNG stream is external (reproducibility observed).',
   technique='Lean 4 proof (eraseIdx lemmas) + correspondence', design='6 C17'),
 'C20': dict(
   text='Theorems: squareform is symmetric with zero diagonal and holds the pair distance; neighbour search = N nearest '
        'among the in-range candidates (as C07); closed-form bijection between the condensed order and the upper triangle; identical for sparse and dense rows, for any storage order of the sparse row up to tie-breaking; '
        'a truncated row stores exactly the entries with d <= max_dist with their values; the double index remap of pair '
        'sampling is injective for samples without replacement. Tie: MetricSpace.dists / diagonal / find_closest / '
        'ProbabalisticMetricSpace vs brute force and the model. C20_source_find_closest / C20_source_dists pin the statements of find_closest, MetricSpace.dists, MetricSpacePair.dists and diagonal.',
   note='cKDTree and the NumPy RNG are external.',
   technique='Lean 4 proof (sorting/permutation, Nodup index lemmas) + correspondence', design='6 C20'),
})

CHECKS.update({
 'C04': dict(
   text='Theorems: under the coefficient layout that fit establishes, the model rebuilt from describe() (kriging, '
        'fitted_model_function) is called with exactly the arguments of fitted_model/transform/data, and parameters '
        'lists exactly those arguments (range, sill, shape, nugget); with the nugget disabled the reported nugget is 0 '
        'and the call passes nugget 0; rss = n*mse; counter-example for the pre-repair manual layout (D6). Tie: the '
        'implementation\'s cof goes through the model (describe / parameters / rebuilt arguments compared), all callable '
        'views incl. OrdinaryKriging.gamma_model and VariogramEstimator.predict are evaluated on a lag grid, metrics '
        'against their documented definitions. The code\'s own describe() / parameters / fitted_model_function are translated (Gen/Views) and proved to have exactly this layout (C04_source_describe/_rebuild/_parameters/_views_agree).',
   note='View equality is compared at 1e-10; sums of models are checked on the implementation only.',
   technique='Lean 4 proof (case analysis over the coefficient layouts) + correspondence', design='6 C04'),
 'C05': dict(
   text='Theorems: the bounds table generated from __get_fit_bounds equals the documented bounds for all six models, '
        'nugget factor 0.99, lower bound 0, p0 = upper bound; filtering x, y, sigma with one NaN mask keeps the triples '
        'aligned; values at NaN positions do not influence what reaches the optimiser; counter-example for the '
        'unfiltered sigma (D5). Tie: translator (bounds) + recording of what reaches curve_fit vs the model. Local '
        'optimality is VALIDATED numerically by restarts (not proved).',
   note='scipy.optimize.curve_fit is external: only its inputs, bounds and the local optimality of its output are checked '
        '(objective decrease relative to the weighted total sum of squares). Known findings D13 (stable, shape -> 0), D18, D19 (trf stalls).',
   technique='Lean 4 proof (finite table by decide, list lemmas) + translator + recorded-input correspondence', design='6 C05'),
 'C06': dict(
   text='Theorem for ALL finite histories of assignments and interleaved reads: in the taint-tracking cache machine every '
        'setter and lazy read preserves "no filled cache is inconsistent with a setting it depends on", provided the '
        'setter invalidation table covers the dependency relation; the table EXTRACTED FROM THE SOURCE on every run is '
        'shown to cover it by decide (minus the listed gap use_nugget -> cof), hence every read equals a fresh instance; '
        'the gap is witnessed. Tie: translator (invalidation sets per setter incl. understood guards) + after every '
        'operation the pattern of filled private caches vs the model + every read vs a freshly built instance. The skeleton of the lazy getters (which cache guards which recomputation, which getters call which) is extracted from the source and pinned (C06_source_getters).',
   note='Known findings D7, D8-ii/iii/iv (resolution of maxlag at assignment time is not a cache of the model). '
        'fit_method="manual" is outside the alphabet.',
   technique='Lean 4 proof (invariant by induction over operation histories; decide on the generated table) + translator + history correspondence', design='6 C06'),
 'C12': dict(
   text='Theorems about the definitions generated from DirectionalVariogram.py: the stored pair angle is the polar angle '
        'of the pair vector; compass mask <=> distance of theta+azimuth to the nearest multiple of pi <= tolerance/2; '
        'triangle mask additionally |dx sin a + dy cos a| <= bandwidth/2 (perpendicular offset); swapping the two points '
        'changes the angle by +-pi and leaves both criteria unchanged; lag classes of the masked grouping = lag classes of '
        'the selected pairs. Tie: translator + Float twin of the generated masks on the implementation\'s per-pair data + '
        'independent dot/cross-product oracle + C01/C02 models on the selected pairs.',
   note='Pairs within 1e-7 deg / 1e-9 of the tolerance / bandwidth boundary are excluded as the property allows.',
   technique='Lean 4 proof over the reals (trigonometric identities, rounding to the nearest multiple of pi) of generated definitions', design='6 C12'),
 'C13': dict(
   text='Theorems: tolerance 180 selects every pair - for the compass and, when half the bandwidth is at least the distance, for the '
        'triangle (C13_isotropic_triangle; below that the band criterion excludes pairs: C13_triangle_band_limits); azimuth+180 gives the same angle and band criteria; joint rotation of '
        'coordinates (theta+phi mod 2pi) and azimuth (-phi) leaves them unchanged; for m sectors of width pi/m every '
        'direction lies in at least one sector. Tie: metamorphic runs on the implementation (isotropic relation for the compass and for '
        'the triangle with bandwidths of 2.5 / 10 / 1e6 times the largest distance; rotation unless tied pairs sit on a lag edge).',
   note='Cases with a pair within 1e-7 deg of a sector boundary are excluded.',
   technique='Lean 4 proof over the reals (periodicity of the distance to pi*Z, rounding argument) + metamorphic correspondence', design='6 C13'),
 'C14': dict(
   text='Theorems: per-axis grouping uses open-closed intervals (loop spec by induction); table entry i*nt+j is the '
        'estimator over exactly the differences of space class i and time class j (flatMap/index arithmetic); marginals '
        'are the corresponding column / row. Tie: implementation table, groups and marginals vs the model on the '
        'implementation\'s own distances and edges + brute-force oracle. C14_table: the whole table from edges, distances and values - class membership is exactly the open-closed interval, pairs at distance 0 are in no class. The statements of _calc_diff / lag_classes / _get_member are pinned (C14_source_table).',
   note='', technique='Lean 4 proof (induction, index arithmetic) + exact-rational correspondence', design='6 C14'),
 'C15': dict(
   text='Theorems: generated sum / product / product-sum formulas are the documented combinations; every sample pairs '
        'table entry k = i*nt+j with the lags of its own cell; NaN cells are dropped; counter-example for the time-major '
        'pairing (D2); the source flattens the transposed grids. Tie: translator + recording of curve_fit inputs vs the '
        'model; fitted_model vs formula at interior lag pairs, on both axes (h, 0), (0, t) and at the origin; optimality by restart (validated).',
   note='curve_fit optimality is validated, not proved.',
   technique='Lean 4 proof (ring identities, index lemmas) + translator + recorded-input correspondence', design='6 C15'),
 'C18': dict(
   text='Theorems: if every stored field is a private copy and every array handed out is a copy then, for all sequences '
        'of caller-side writes, what the instance reports does not change; a clone owns everything and reports what the '
        'original reports; the ownership table extracted from the source stores values, coordinates, kriging values as '
        'copies and returns a copy of the lag edges. Tie: translator + np.shares_memory + differential runs under caller '
        'mutation, clone / pickle round trips, seeded runs in two fresh processes.',
   note='copy.deepcopy, pickle and process-level determinism are runtime behaviour the model cannot exhibit: validated '
        'differentially only (partial).',
   technique='Lean 4 proof (store model, induction over operation sequences; decide on the generated table) + translator + differential correspondence', design='6 C18'),
 'C19': dict(
   text='Theorems: lower <= median <= upper for every q in [0,100]; lowering q never narrows an interval (quantile '
        'monotonicity incl. out-of-range levels); the middle value is np.median; identical members give three equal bounds; counter-examples for the '
        'truncated level (D12) and the re-read resolved maxlag (D11). Tie: Monte-Carlo members re-created independently, '
        'their percentiles taken by the model and compared with propagate; reproducibility, zero-noise identity, source '
        'snapshot before/after. C19_source pins the percentile levels and the three result columns of propagate. Several '
        'targets per call: the order in which a member appends its targets is translated from the source '
        '(Gen.propagateTargets); C19_targets_order / _documented: the returned matrices depend only on the set of '
        'requested targets and come in the documented order; calls with 2-3 targets in any order are compared '
        'position by position with single-target calls of the same seed.',
   note='Known finding D11. NumPy Generator stream is external.',
   technique='Lean 4 proof (quantile monotonicity, target order) + translator (target order, key statements) + correspondence', design='6 C19'),
})
NOT_YET = {}
ALL = ['C%02d' % i for i in range(1, 21)]

def main():
    checks = []
    for pid in ALL:
        if pid not in CHECKS:
            continue
        c = CHECKS[pid]
        checks.append(dict(
            property_id=pid,
            quick_cmd='./check %s --tier quick' % pid,
            thorough_cmd='./check %s --tier thorough' % pid,
            evidence_file='evidence/%s.json' % pid,
            replay_cmd_template='./check %s --replay {path}' % pid,
            engine='lean4-skgverif',
            level_claimed=dict(category='proof', text=c['text'], design_ref='DESIGN.md §' + c['design']),
            level_note=COMMON_NOTE + c['note'],
            technique=c['technique'],
        ))
    na = [dict(property_id=p, reason=NOT_YET.get(p, 'check not built yet in this session (planned at proof level, see DESIGN.md §6)'))
          for p in ALL if p not in CHECKS]
    m = dict(
        version=1,
        setup_cmd='cd lean && lake build 2>&1 | tail -5',
        hooks=dict(guard='SKGSTAT_VERIF', enable='no source hooks are needed: the harness reads private attributes and '
                   'rebinds names from outside; SKGSTAT_VERIF=1 is exported by ./check for completeness',
                   baseline_off_cmd='cd /repo && /venv/bin/python -m pytest -ra -q -p no:cacheprovider --timeout=900 '
                                    '--continue-on-collection-errors',
                   source_commits=[], add_only=True),
        engines=[dict(name='lean4-skgverif', path='lean/', serves_properties=[c['property_id'] for c in checks],
                      kind_free_text='Lean 4.33 + Mathlib library of executable models (Model/), generated definitions '
                                     '(Gen/, from /repo by translator/), lemmas and property theorems (Props/); '
                                     'Driver.lean is the line-protocol executable model used by harness/')],
        checks=checks,
        notes='See DESIGN.md. known_findings.json lists genuine defects (known / fixed).',
        not_applicable=na,
    )
    with open(os.path.join(ROOT, 'MANIFEST.json'), 'w') as f:
        json.dump(m, f, indent=1)
    print('wrote MANIFEST.json: %d checks, %d not yet claimed' % (len(checks), len(na)))

if __name__ == '__main__':
    main()
