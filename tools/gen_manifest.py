#!/usr/bin/env python3
"""Writes MANIFEST.json from the per-property table below (kept in one place so that the
manifest is always valid and in step with what ./check implements)."""
import json, os
ROOT = os.path.dirname(os.path.dirname(os.path.abspath(__file__)))

COMMON_NOTE = ('Trusted base: Lean 4.33 kernel (+ leanchecker in the thorough tier); axioms limited to propext, '
               'Classical.choice, Quot.sound (audited with #print axioms on every run; no sorry/native_decide/'
               'bv_decide/own axioms); Mathlib as proved library; translator/ (Python AST -> Lean, output '
               'regenerated from /repo on every run) and harness/ (correspondence of the executable Lean model '
               'with the real classes on identical exact-rational inputs). Floating-point rounding is not '
               'modelled: theorems are over Q / R, rounding inside computations is covered by the stated '
               'tolerances only. ')

CHECKS = {
 'C01': dict(
   text='Theorems (for all edge lists, distance lists, sizes): the _calc_groups loop assigns class k iff '
        'edge[k-1] <= d < edge[k] and -1 iff d is at/after every edge (induction over the interval chain); '
        'partition/uniqueness; bin_count and each experimental entry are the count / the estimator over exactly '
        'that sub-list; pdist order enumerates exactly the pairs i<j once and keeps k-th distance and k-th '
        'difference on the same pair; Matheron/Dowd/Genton as generated from estimators.py equal the documented '
        'formulas (Genton only for even N: D15 counter-example proved). Tie: translator for estimator formulas; '
        'correspondence of groups/counts (exact) and semivariances (1e-9) on the implementation\'s own distance '
        'vector for all binnings/estimators/storages; brute-force pair-set oracles for dense and sparse storage.',
   note='pdist / cKDTree numerical contents are taken from the implementation (C20 checks them); Cressie-Hawkins is '
        'executed on Float in the model (needs sqrt); Genton classes above 45 pairs are compared for grouping only.',
   technique='Lean 4 proof (induction over the lag-interval chain; list lemmas) + translator + exact-rational correspondence',
   design='6 C01'),
}

NOT_YET = {}
ALL = ['C%02d' % i for i in range(1, 21)]

def main():
    checks = []
    for pid in ALL:
        if pid not in CHECKS:
            continue
        c = CHECKS[pid]
        checks.append(dict(
            property_id=pid,
            quick_cmd='./check %s --tier quick' % pid,
            thorough_cmd='./check %s --tier thorough' % pid,
            evidence_file='evidence/%s.json' % pid,
            replay_cmd_template='./check %s --replay {path}' % pid,
            engine='lean4-skgverif',
            level_claimed=dict(category='proof', text=c['text'], design_ref='DESIGN.md §' + c['design']),
            level_note=COMMON_NOTE + c['note'],
            technique=c['technique'],
        ))
    na = [dict(property_id=p, reason=NOT_YET.get(p, 'check not built yet in this session (planned at proof level, see DESIGN.md §6)'))
          for p in ALL if p not in CHECKS]
    m = dict(
        version=1,
        setup_cmd='cd lean && lake build 2>&1 | tail -5',
        hooks=dict(guard='SKGSTAT_VERIF', enable='no source hooks are needed: the harness reads private attributes and '
                   'rebinds names from outside; SKGSTAT_VERIF=1 is exported by ./check for completeness',
                   baseline_off_cmd='cd /repo && /venv/bin/python -m pytest -ra -q -p no:cacheprovider --timeout=900 '
                                    '--continue-on-collection-errors',
                   source_commits=[], add_only=True),
        engines=[dict(name='lean4-skgverif', path='lean/', serves_properties=[c['property_id'] for c in checks],
                      kind_free_text='Lean 4.33 + Mathlib library of executable models (Model/), generated definitions '
                                     '(Gen/, from /repo by translator/), lemmas and property theorems (Props/); '
                                     'Driver.lean is the line-protocol executable model used by harness/')],
        checks=checks,
        notes='See DESIGN.md. known_findings.json lists genuine defects (known / fixed).',
        not_applicable=na,
    )
    with open(os.path.join(ROOT, 'MANIFEST.json'), 'w') as f:
        json.dump(m, f, indent=1)
    print('wrote MANIFEST.json: %d checks, %d not yet claimed' % (len(checks), len(na)))

if __name__ == '__main__':
    main()
