#!/bin/bash
# tools/matrix.sh <out-file> <seeded-dir>...  -- every quick check against every given seeded change
# (scratch worktree + SKGSTAT_REPO; /repo untouched).  One line per (change, property): exit code + verdict.
# Meant for `vp run` (own snapshot of /verif): builds the Lean project first when .lake is absent.
set -u
cd "$(dirname "$0")/.."
out=$1; shift
[ -d lean/.lake ] || (cd lean && lake build >/dev/null 2>&1)
for sd in "$@"; do
  name=$(basename $sd)
  wt=$(mktemp -d /tmp/wt_mx_XXXX); rmdir $wt
  git -C /repo worktree add --detach $wt HEAD >/dev/null 2>&1 || { echo "$name worktree failed" >> $out; continue; }
  git -C $wt apply "$(readlink -f $sd/patch.diff)" || { echo "$name PATCH-DOES-NOT-APPLY" >> $out; git -C /repo worktree remove --force $wt; continue; }
  for i in $(seq -w 1 20); do
    res=$(SKGSTAT_REPO=$wt VERIF_SEED=${VERIF_SEED:-0} timeout 1500 ./check C$i 2>&1); rc=$?
    v=$(echo "$res" | grep -c "^VIOLATION"); nf=$(echo "$res" | grep -c "no-failing-input-found"); fb=$(echo "$res" | grep -c "^TIE-FALLBACK")
    echo "$name C$i rc=$rc violations=$v nofail=$nf fallback=$fb" >> $out
  done
  git -C /repo worktree remove --force $wt
done
echo DONE >> $out
