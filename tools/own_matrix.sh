#!/bin/bash
# tools/own_matrix.sh <out-file> [seeds...] -- every seeded change against the quick check of the property it breaks
# (scratch worktree + SKGSTAT_REPO); one line per (change, seed). ONLY=<regex> restricts the changes (parallel runs). For `vp run`: builds Lean when .lake is absent.
set -u
cd "$(dirname "$0")/.."
out=$1; shift
seeds=${*:-0 1}
[ -d lean/.lake ] || (cd lean && lake build >/dev/null 2>&1)
for sd in seeded/*/; do
  name=$(basename $sd); prop=${name%%-*}
  if [ -n "${ONLY:-}" ] && ! [[ $name =~ $ONLY ]]; then continue; fi
  wt=$(mktemp -d /tmp/wt_own_XXXX); rmdir $wt
  git -C /repo worktree add --detach $wt HEAD >/dev/null 2>&1 || continue
  git -C $wt apply "$(readlink -f $sd/patch.diff)" || { echo "$name PATCH-DOES-NOT-APPLY" >> $out; git -C /repo worktree remove --force $wt; continue; }
  for seed in $seeds; do
    res=$(SKGSTAT_REPO=$wt VERIF_SEED=$seed timeout 1500 ./check $prop 2>&1); rc=$?
    echo "$name $prop seed=$seed rc=$rc violations=$(echo "$res" | grep -c '^VIOLATION') nofail=$(echo "$res" | grep -c 'no-failing-input-found') fallback=$(echo "$res" | grep -c '^TIE-FALLBACK')" >> $out
  done
  git -C /repo worktree remove --force $wt
done
echo DONE >> $out
