#!/bin/bash
# run every quick (or thorough) check; usage: tools/run_all.sh [tier] [seed]
cd "$(dirname "$0")/.."
tier=${1:-quick}; seed=${2:-0}
for i in $(seq -w 1 20); do
  VERIF_SEED=$seed ./check C$i --tier $tier 2>&1 | grep -v "^KNOWN" | tail -1
done
