#!/venv/bin/python
"""Run the repository's pinned test suite (guard off) and compare with /root/.vp/BASELINE.json."""
import json, os, subprocess, sys, tempfile
import xml.etree.ElementTree as ET
env = dict(os.environ)
env.pop('SKGSTAT_VERIF', None)
repo = sys.argv[1] if len(sys.argv) > 1 else '/repo'
env['PYTHONPATH'] = repo
base = json.load(open('/root/.vp/BASELINE.json'))
with tempfile.TemporaryDirectory() as td:
    xml = os.path.join(td, 'r.xml')
    subprocess.run(['/venv/bin/python', '-m', 'pytest', '-ra', '-q', '-p', 'no:cacheprovider', '--timeout=900',
                    '--continue-on-collection-errors', '--junitxml=' + xml], cwd=repo, env=env,
                   stdout=subprocess.DEVNULL, stderr=subprocess.DEVNULL)
    root = ET.parse(xml).getroot()
passed = set()
failed = set()
for tc in root.iter('testcase'):
    name = tc.get('classname') + '::' + tc.get('name')
    if any(c.tag in ('failure', 'error') for c in tc):
        failed.add(name)
    elif not any(c.tag == 'skipped' for c in tc):
        passed.add(name)
missing = sorted(set(base['stable_pass']) - passed)
print('passed %d, failed %d; baseline stable tests not passing: %d' % (len(passed), len(failed), len(missing)))
for m in missing:
    print('  MISSING', m)
print('failed:', sorted(failed))
sys.exit(1 if missing else 0)
