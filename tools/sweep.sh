#!/bin/bash
# clean-tree stability sweep: every quick check with several seeds; prints only alarms
cd "$(dirname "$0")/.."
for seed in "$@"; do
  for i in $(seq -w 1 20); do
    out=$(VERIF_SEED=$seed ./check C$i --tier quick 2>&1)
    rc=$?
    if [ $rc -ne 0 ]; then echo "ALARM seed=$seed C$i rc=$rc"; echo "$out" | grep -v "^KNOWN" | cut -c1-400 | tail -4; fi
  done
  echo "seed $seed done"
done
