#!/bin/bash
# clean-tree run of every thorough check (one seed); prints the summary line and any alarm
cd "$(dirname "$0")/.."
seed=${1:-0}
for i in $(seq -w 1 20); do
  out=$(VERIF_SEED=$seed ./check C$i --tier thorough 2>&1)
  rc=$?
  echo "$out" | grep -v "^KNOWN" | tail -1
  if [ $rc -ne 0 ]; then echo "ALARM seed=$seed C$i rc=$rc"; echo "$out" | grep -v "^KNOWN" | cut -c1-400 | tail -6; fi
done
