#!/bin/bash
# tools/try_harmless.sh <worktree> <name> <property>... -- a behaviour-preserving rewrite (sub-agent, worktree with
# _seed/patch.diff, notes.md, equiv.py): run the given quick checks against it; expected: exit 0 everywhere
# (TIE-FALLBACK lines allowed); runs with SKGVERIF_SECOND_TIE=1 (accept an agreeing second tie) unless set otherwise.  Results are kept under harmless/<name>/.
set -u
wt=$1; name=$2; shift 2
cd "$(dirname "$0")/.."
out=$PWD/harmless/$name; mkdir -p $out
cp $wt/_seed/patch.diff $out/ 2>/dev/null; cp $wt/_seed/notes.md $out/agent_notes.md 2>/dev/null; cp $wt/_seed/equiv.py $out/ 2>/dev/null
: > $out/results.txt
for prop in "$@"; do
  for seed in ${SEEDS:-0 1}; do
    res=$(SKGVERIF_SECOND_TIE=${SKGVERIF_SECOND_TIE:-1} SKGSTAT_REPO=$wt VERIF_SEED=$seed ./check $prop 2>&1); rc=$?
    echo "$prop seed=$seed rc=$rc $(echo "$res" | grep -c '^VIOLATION') violation(s) $(echo "$res" | grep -c '^TIE-FALLBACK') fallback" | tee -a $out/results.txt
    [ $rc -ne 0 ] && echo "$res" | grep -v "^KNOWN\|WARNING" | cut -c1-500 | tail -5 | tee -a $out/results.txt
  done
done
