#!/bin/bash
# tools/try_patch.sh <patch.diff> <property>... -- run quick checks against a scratch worktree of /repo
# with the patch applied (SKGSTAT_REPO), /repo itself stays untouched; the worktree is removed afterwards
set -u
patch=$(readlink -f "$1"); shift
cd "$(dirname "$0")/.."
wt=$(mktemp -d /tmp/wt_try_XXXX); rmdir $wt
git -C /repo worktree add --detach $wt HEAD >/dev/null 2>&1 || exit 3
git -C $wt apply "$patch" || { echo "PATCH DOES NOT APPLY"; git -C /repo worktree remove --force $wt; exit 3; }
for prop in "$@"; do
  for seed in ${SEEDS:-0}; do
    SKGSTAT_REPO=$wt VERIF_SEED=$seed ./check $prop 2>&1 | grep -v "^KNOWN\|WARNING" | cut -c1-${WIDTH:-300} | tail -${TAIL:-2}
  done
done
git -C /repo worktree remove --force $wt
