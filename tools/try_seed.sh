#!/bin/bash
# tools/try_seed.sh <worktree> <property> <name>  -- confirm a seeded change and run the check against it
# 1. baseline suite in the worktree (change applied)  2. demo fails with / passes without the change
# 3. run ./check <property> (quick, seeds 0 and 1) against the worktree (SKGSTAT_REPO); /repo is not touched
set -u
wt=$1; prop=$2; name=$3
cd "$(dirname "$0")/.."
out=$PWD/seeded/$name; mkdir -p $out
cp $wt/_seed/patch.diff $wt/_seed/demo.py $out/ 2>/dev/null
cp $wt/_seed/notes.md $out/agent_notes.md 2>/dev/null
if [ -n "${SKIP_BASELINE:-}" ]; then echo "== baseline: deferred (tools/run_baseline.py $wt)"; else
echo "== baseline in worktree (change applied)"; ./tools/run_baseline.py $wt | head -1 | tee $out/baseline.txt; fi
echo "== demo with change"; (cd $wt && PYTHONPATH=$wt /venv/bin/python _seed/demo.py > /tmp/demo_with.txt 2>&1; echo "exit $?") | tee $out/demo_with.txt
git -C /repo apply --check $out/patch.diff || { echo "PATCH DOES NOT APPLY to /repo"; exit 3; }
echo "== demo without change (on /repo)"; (cd /repo && PYTHONPATH=/repo /venv/bin/python $out/demo.py > /tmp/demo_without.txt 2>&1; echo "exit $?") | tee $out/demo_without.txt
git -C $wt diff -- skgstat | diff -q - $out/patch.diff >/dev/null || echo "NOTE: worktree diff differs from patch.diff"
for seed in 0 1; do
  echo "== check $prop seed $seed"; SKGSTAT_REPO=$wt VERIF_SEED=$seed ./check $prop 2>&1 | grep -v "^KNOWN\|WARNING" | cut -c1-400 | tail -4 | tee $out/check_$seed.txt
done
