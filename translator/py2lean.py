"""Python AST -> Lean 4 for the closed-form parts of scikit-gstat.

Supported language: float/int constants, names, + - * / **, unary minus, comparisons,
`math.exp`, `math.pow`, `np.power`, `np.sqrt`, `np.abs`, let-style assignments, if/else with
returns, tuple unpacking `h, t = lags`, calls of function-valued parameters (`Vx(h)`).
Vector idioms for the estimators: `x.size`, `np.sum(<elementwise expr of x>)`.
Anything else raises `Untranslatable` - the caller reports it as a broken tie, it is never
skipped silently.
"""
import ast
import textwrap
from fractions import Fraction


class Untranslatable(Exception):
    pass


FLAVOURS = {
    # type, exp, pow(real exponent), sqrt, abs, noncomputable
    'real': dict(T='ℝ', exp='Real.exp', rpow='Real.rpow', sqrt='Real.sqrt', abs='abs', nc=True,
                 pi='Real.pi', sin='Real.sin', arccos='Real.arccos'),
    'float': dict(T='Float', exp='Float.exp', rpow='Float.pow', sqrt='Float.sqrt', abs='Float.abs', nc=False,
                  pi='Skg.piF', sin='Float.sin', arccos='Float.acos'),
    'rat': dict(T='Rat', exp=None, rpow=None, sqrt=None, abs='Skg.absR', nc=False),
}


class Emitter:
    def __init__(self, flavour, vec=None, subst=None, funcs=(), extern=None, selfattrs=(), ret_decide=False):
        self.fl = FLAVOURS[flavour]
        self.flavour = flavour
        self.T = self.fl['T']
        self.vec = vec            # name of the vector argument (estimators)
        self.subst = subst or {}  # source-text of a sub-expression -> lean variable
        self.funcs = set(funcs)   # names of function-valued parameters
        self.extern = extern or {}  # dotted python name -> lean function name (parameters)
        self.selfattrs = set(selfattrs)  # `self.x` readable as parameter x
        self.ret_decide = ret_decide

    # ---------------------------------------------------------------- expressions
    def const(self, v):
        if isinstance(v, bool):
            raise Untranslatable('bool constant')
        if isinstance(v, int):
            return f'({v} : {self.T})'
        if isinstance(v, float):
            fr = Fraction(repr(v))
            if fr.denominator == 1:
                return f'({fr.numerator} : {self.T})'
            if self.flavour == 'float':
                return f'(({fr.numerator} : Float) / {fr.denominator})'
            return f'(({fr.numerator} : {self.T}) / {fr.denominator})'
        raise Untranslatable('constant %r' % (v,))

    def int_exponent(self, e):
        if isinstance(e, ast.Constant) and isinstance(e.value, (int, float)) and not isinstance(e.value, bool):
            if float(e.value) == int(e.value) and 0 <= int(e.value) <= 16:
                return int(e.value)
        return None

    def pow(self, base, expo):
        k = self.int_exponent(expo)
        b = self.expr(base)
        if k is not None:
            if self.flavour == 'float':
                return '(' + ' * '.join([b] * k) + ')' if k > 0 else '(1 : Float)'
            return f'({b} ^ ({k} : Nat))'
        if isinstance(expo, ast.Constant) and expo.value == 0.5 and self.fl['sqrt']:
            return f'({self.fl["sqrt"]} {b})'
        if self.fl['rpow'] is None:
            raise Untranslatable('non-integer power in exact flavour')
        return f'({self.fl["rpow"]} {b} {self.expr(expo)})'

    def expr(self, e):
        src = ast.unparse(e)
        if src in self.subst:
            return self.subst[src]
        if isinstance(e, ast.Constant):
            return self.const(e.value)
        if isinstance(e, ast.Name):
            if e.id == self.vec:
                raise Untranslatable('bare vector use')
            return e.id
        if isinstance(e, ast.Attribute):
            if src == 'np.pi' and self.fl.get('pi'):
                return self.fl['pi']
            if isinstance(e.value, ast.Name) and e.value.id == 'self' and e.attr in self.selfattrs:
                return e.attr
            if isinstance(e.value, ast.Name) and e.value.id == self.vec and e.attr == 'size':
                return f'(({self.vec}.length : Nat) : {self.T})' if self.flavour != 'float' \
                    else f'(Float.ofNat {self.vec}.length)'
            raise Untranslatable('attribute ' + src)
        if isinstance(e, ast.UnaryOp) and isinstance(e.op, ast.USub):
            return f'(-{self.expr(e.operand)})'
        if isinstance(e, ast.BinOp):
            if isinstance(e.op, ast.Pow):
                return self.pow(e.left, e.right)
            a, b = self.expr(e.left), self.expr(e.right)
            if isinstance(e.op, ast.BitAnd):
                return f'({a} ∧ {b})'
            op = {ast.Add: '+', ast.Sub: '-', ast.Mult: '*', ast.Div: '/'}.get(type(e.op))
            if op is None:
                raise Untranslatable('operator in ' + src)
            return f'({a} {op} {b})'
        if isinstance(e, ast.Call):
            fn = ast.unparse(e.func)
            if fn in self.funcs and len(e.args) == 1:
                return f'({fn} {self.expr(e.args[0])})'
            if fn in ('math.pow', 'np.power') and len(e.args) == 2:
                return self.pow(e.args[0], e.args[1])
            if fn in ('math.exp', 'np.exp') and len(e.args) == 1:
                if self.fl['exp'] is None:
                    raise Untranslatable('exp in exact flavour')
                return f'({self.fl["exp"]} {self.expr(e.args[0])})'
            if fn == 'np.sqrt' and len(e.args) == 1:
                if self.fl['sqrt'] is None:
                    raise Untranslatable('sqrt in exact flavour')
                return f'({self.fl["sqrt"]} {self.expr(e.args[0])})'
            if fn == 'np.radians' and len(e.args) == 1 and self.fl.get('pi'):
                return f'(({self.expr(e.args[0])} * {self.fl["pi"]}) / 180)'
            if fn == 'np.sin' and len(e.args) == 1 and self.fl.get('sin'):
                return f'({self.fl["sin"]} {self.expr(e.args[0])})'
            if fn == 'np.arccos' and len(e.args) == 1 and self.fl.get('arccos'):
                return f'({self.fl["arccos"]} {self.expr(e.args[0])})'
            if fn == 'np.where' and len(e.args) == 3:
                c, a, b = (self.expr(x) for x in e.args)
                return f'(if {c} then {a} else {b})'
            if fn == 'np.abs' and len(e.args) == 1:
                return f'({self.fl["abs"]} {self.expr(e.args[0])})'
            if fn == 'np.sum' and len(e.args) == 1 and self.vec:
                return self.vecsum(e.args[0])
            if fn == 'binom' and len(e.args) == 2 and isinstance(e.args[1], ast.Constant) \
                    and e.args[1].value == 2:
                a = self.expr(e.args[0])
                return f'(({a} * ({a} - 1)) / 2)'
            if fn in self.extern:
                return '(' + self.extern[fn] + ' ' + ' '.join(self.expr(a) for a in e.args) + ')'
            raise Untranslatable('call ' + src)
        if isinstance(e, ast.Compare) and len(e.ops) == 1:
            a, b = self.expr(e.left), self.expr(e.comparators[0])
            op = {ast.LtE: '≤', ast.Lt: '<', ast.Eq: '=', ast.GtE: '≥', ast.Gt: '>',
                  ast.NotEq: '≠'}.get(type(e.ops[0]))
            if op is None:
                raise Untranslatable('comparison ' + src)
            if self.flavour == 'float' and op == '=':
                op = '=='
            if self.flavour == 'float' and op == '≠':
                op = '!='
            return f'({a} {op} {b})'
        raise Untranslatable(src)

    def vecsum(self, e):
        """np.sum(<elementwise expression in the vector>) -> sum of a mapped list"""
        elem = Emitter(self.flavour, vec=None, subst={self.vec: 't'})
        body = elem.expr(e)
        zero = f'(0 : {self.T})'
        return f'(({self.vec}.map fun t => {body}).foldl (· + ·) {zero})'

    # ---------------------------------------------------------------- statements
    def body(self, stmts):
        if not stmts:
            raise Untranslatable('function falls off the end')
        st = stmts[0]
        if isinstance(st, ast.Expr) and isinstance(st.value, ast.Constant):
            return self.body(stmts[1:])  # docstring
        if isinstance(st, ast.Assign) and len(st.targets) == 1:
            tg = st.targets[0]
            if isinstance(tg, ast.Name):
                return f'let {tg.id} := {self.expr(st.value)}\n{self.body(stmts[1:])}'
            if isinstance(tg, ast.Tuple) and isinstance(st.value, ast.Name) and \
                    all(isinstance(t, ast.Name) for t in tg.elts) and len(tg.elts) == 2:
                a, b = tg.elts
                return (f'let {a.id} := {st.value.id}.1\nlet {b.id} := {st.value.id}.2\n'
                        f'{self.body(stmts[1:])}')
            raise Untranslatable('assignment ' + ast.unparse(st))
        if isinstance(st, ast.Return):
            return f'decide {self.expr(st.value)}' if self.ret_decide else self.expr(st.value)
        if isinstance(st, ast.If):
            els = st.orelse if st.orelse else stmts[1:]
            return (f'if {self.expr(st.test)} then\n{textwrap.indent(self.body(st.body), "  ")}\n'
                    f'else\n{textwrap.indent(self.body(els), "  ")}')
        raise Untranslatable('statement ' + ast.unparse(st)[:80])


def find_function(tree, name):
    for node in tree.body:
        if isinstance(node, ast.FunctionDef) and node.name == name:
            return node
    raise Untranslatable('function %s not found' % name)


def defaults_of(fn):
    """{arg: default constant}"""
    args = fn.args.args
    ds = fn.args.defaults
    out = {}
    for a, d in zip(args[len(args) - len(ds):], ds):
        out[a.arg] = d.value if isinstance(d, ast.Constant) else ast.unparse(d)
    return out


def emit_def(name, params, ret_T, body, nc):
    head = ('noncomputable ' if nc else '') + f'def {name} {params} : {ret_T} :=\n'
    return head + textwrap.indent(body, '  ') + '\n'
